#!/verif/.venv/bin/python
"""Replay of a solver model against the real code in /repo (no solver, no symbolic engine in this process).
property: C03
harness : harness.c03_outputs_agree.check_top
found   : write_gmx_topology emitted one #include per group of successive molecules: a molecule type interrupted by another one (A B A) was included twice
exit 1 = the violation reproduces, exit 0 = it does not.
"""
import importlib, os, sys, traceback
sys.path.insert(0, '/verif'); sys.path.insert(1, '/repo')
sys.setrecursionlimit(20000)
mod = importlib.import_module('harness.c03_outputs_agree')
if hasattr(mod, 'warmup'):
    try:
        mod.warmup()
    except Exception:
        pass
mod.PART = {'count': 3, 'prefix': []}
ENGINE = 'ch'
try:
    if ENGINE == 'ch':
        res = getattr(mod, 'check_top')(*[0, 1, 0, 0, 0], **{})
    else:
        from engine.symnum import replay_model
        res = replay_model(getattr(mod, 'check_top'), None)
except Exception:
    traceback.print_exc()
    print('REPRODUCED: unexpected exception from the code under test')
    sys.exit(1)
print('harness result:', repr(res))
if res:
    print('REPRODUCED:', res)
    sys.exit(1)
print('not reproduced')
sys.exit(0)
