#!/verif/.venv/bin/python
"""Replay of a solver model against the real code in /repo (no solver, no symbolic engine in this process).
property: C19
harness : harness.c19_mutmod.check_flow
found   : AnnotateMutMod reported an unmatched request only when the last request of every molecule was unmatched (an earlier unmatched request was silently ignored), and an unmatched request without residue name raised TypeError in _format_resname
exit 1 = the violation reproduces, exit 0 = it does not.
"""
import importlib, os, sys, traceback
sys.path.insert(0, '/verif'); sys.path.insert(1, '/repo')
sys.setrecursionlimit(20000)
mod = importlib.import_module('harness.c19_mutmod')
if hasattr(mod, 'warmup'):
    try:
        mod.warmup()
    except Exception:
        pass
mod.PART = {'nreq': 2, 'with_resid': False, 'small': True}
ENGINE = 'ch'
try:
    if ENGINE == 'ch':
        res = getattr(mod, 'check_flow')(*[0, 2, -1, 0, 0, 0, 0, -1, 0, 0, 0, 0, 0, 0, 0], **{})
    else:
        from engine.symnum import replay_model
        res = replay_model(getattr(mod, 'check_flow'), None)
except Exception:
    traceback.print_exc()
    print('REPRODUCED: unexpected exception from the code under test')
    sys.exit(1)
print('harness result:', repr(res))
if res:
    print('REPRODUCED:', res)
    sys.exit(1)
print('not reproduced')
sys.exit(0)
