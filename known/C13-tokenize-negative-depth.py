#!/verif/.venv/bin/python
"""Replay of a solver model against the real code in /repo (no solver, no symbolic engine in this process).
property: C13
harness : harness.c13_readers.check_tokenize
found   : _tokenize checked bracket balance only at the end of a token: '}{' or 'a}{' came out balanced and were accepted as tokens instead of raising IOError
exit 1 = the violation reproduces, exit 0 = it does not.
"""
import importlib, os, sys, traceback
sys.path.insert(0, '/verif'); sys.path.insert(1, '/repo')
sys.setrecursionlimit(20000)
mod = importlib.import_module('harness.c13_readers')
if hasattr(mod, 'warmup'):
    try:
        mod.warmup()
    except Exception:
        pass
mod.PART = {'len': 2, 'prefix': ''}
ENGINE = 'ch'
try:
    if ENGINE == 'ch':
        res = getattr(mod, 'check_tokenize')(*['}{'], **{})
    else:
        from engine.symnum import replay_model
        res = replay_model(getattr(mod, 'check_tokenize'), None)
except Exception:
    traceback.print_exc()
    print('REPRODUCED: unexpected exception from the code under test')
    sys.exit(1)
print('harness result:', repr(res))
if res:
    print('REPRODUCED:', res)
    sys.exit(1)
print('not reproduced')
sys.exit(0)
