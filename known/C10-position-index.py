#!/verif/.venv/bin/python
"""Replay of a solver model against the real code in /repo (no solver, no symbolic engine in this process).
property: C10
harness : harness.c10_make_bonds.run_system
found   : _bonds_from_distance built its position array from the keys of idx_to_nodenum instead of its values: when only a subset of atoms takes part (per-residue fallback, or atoms without a radius filtered out) distances were taken between the wrong atoms
exit 1 = the violation reproduces, exit 0 = it does not.
"""
import importlib, os, sys, traceback
sys.path.insert(0, '/verif'); sys.path.insert(1, '/repo')
sys.setrecursionlimit(20000)
mod = importlib.import_module('harness.c10_make_bonds')
if hasattr(mod, 'warmup'):
    try:
        mod.warmup()
    except Exception:
        pass
mod.PART = {'scenario': 'unknown', 'order': [2, 1, 0], 'name': True, 'dist': True}
ENGINE = 'sn'
try:
    if ENGINE == 'ch':
        res = getattr(mod, 'run_system')(*[], **{})
    else:
        from engine.symnum import replay_model
        res = replay_model(getattr(mod, 'run_system'), {'x0': '-1/1', 'x1': '0/1', 'x2': '-1/2', 'fudge': '6/1'})
except Exception:
    traceback.print_exc()
    print('REPRODUCED: unexpected exception from the code under test')
    sys.exit(1)
print('harness result:', repr(res))
if res:
    print('REPRODUCED:', res)
    sys.exit(1)
print('not reproduced')
sys.exit(0)
