#!/verif/.venv/bin/python
"""Replay of a solver model against the real code in /repo (no solver, no symbolic engine in this process).
property: C12
harness : harness.c12_molecule_edit.check_history
found   : merge_molecule trusts the cached highest key (max_node), which add_node increments by one whatever key is added and removals never update: after a merge, add_node(existing or non-consecutive key) or removal of the highest atom makes the next merge raise KeyError or reuse/mis-address keys (molecule.py:666-718)
exit 1 = the violation reproduces, exit 0 = it does not.
"""
import importlib, os, sys, traceback
sys.path.insert(0, '/verif'); sys.path.insert(1, '/repo')
sys.setrecursionlimit(20000)
mod = importlib.import_module('harness.c12_molecule_edit')
if hasattr(mod, 'warmup'):
    try:
        mod.warmup()
    except Exception:
        pass
mod.PART = {'start': 'merged', 'steps': 2, 'nocarve': True}
ENGINE = 'ch'
try:
    if ENGINE == 'ch':
        res = getattr(mod, 'check_history')(*[0, 19, 0, 4, 6], **{})
    else:
        from engine.symnum import replay_model
        res = replay_model(getattr(mod, 'check_history'), None)
except Exception:
    traceback.print_exc()
    print('REPRODUCED: unexpected exception from the code under test')
    sys.exit(1)
print('harness result:', repr(res))
if res:
    print('REPRODUCED:', res)
    sys.exit(1)
print('not reproduced')
sys.exit(0)
