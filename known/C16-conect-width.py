#!/verif/.venv/bin/python
"""Replay of a solver model against the real code in /repo (no solver, no symbolic engine in this process).
property: C16
harness : harness.c16_structure_roundtrip.check_pdb_conect
found   : write_pdb_string wrote CONECT serials four columns wide behind a blank while the reader takes five columns: atom numbers >= 10000 lost their leading digit and the bonds were attached to other atoms
exit 1 = the violation reproduces, exit 0 = it does not.
"""
import importlib, os, sys, traceback
sys.path.insert(0, '/verif'); sys.path.insert(1, '/repo')
sys.setrecursionlimit(20000)
mod = importlib.import_module('harness.c16_structure_roundtrip')
if hasattr(mod, 'warmup'):
    try:
        mod.warmup()
    except Exception:
        pass
mod.PART = {'n': 10003, 'pinned': {'0': True, '1': True, '2': True, '3': True, '4': True, '5': True, '6': False}}
ENGINE = 'ch'
try:
    if ENGINE == 'ch':
        res = getattr(mod, 'check_pdb_conect')(*[True, True, True, True, True, True, False], **{})
    else:
        from engine.symnum import replay_model
        res = replay_model(getattr(mod, 'check_pdb_conect'), None)
except Exception:
    traceback.print_exc()
    print('REPRODUCED: unexpected exception from the code under test')
    sys.exit(1)
print('harness result:', repr(res))
if res:
    print('REPRODUCED:', res)
    sys.exit(1)
print('not reproduced')
sys.exit(0)
