#!/verif/.venv/bin/python
"""Replay of a solver model against the real code in /repo (no solver, no symbolic engine in this process).
property: C17
harness : harness.c17_annotate.check_run_system
found   : unselected molecule (1 residue) ahead of a selected one (2 residues), one-element sequence
exit 1 = the violation reproduces, exit 0 = it does not.
"""
import importlib, os, sys, traceback
sys.path.insert(0, '/verif'); sys.path.insert(1, '/repo')
sys.setrecursionlimit(20000)
mod = importlib.import_module('harness.c17_annotate')
if hasattr(mod, 'warmup'):
    try:
        mod.warmup()
    except Exception:
        pass
mod.PART = {'mols': [1, 2], 'natoms': 2, 'interleave': False}
ENGINE = 'ch'
try:
    if ENGINE == 'ch':
        res = getattr(mod, 'check_run_system')(*[False, True, False, False, 1, 0, 0, 0, 0, 0, 0], **{})
    else:
        from engine.symnum import replay_model
        res = replay_model(getattr(mod, 'check_run_system'), None)
except Exception:
    traceback.print_exc()
    print('REPRODUCED: unexpected exception from the code under test')
    sys.exit(1)
print('harness result:', repr(res))
if res:
    print('REPRODUCED:', res)
    sys.exit(1)
print('not reproduced')
sys.exit(0)
