#!/verif/.venv/bin/python
"""Replay of a solver model against the real code in /repo (no solver, no symbolic engine in this process).
property: C15
harness : harness.c15_rubber_band.run_nan
found   : ApplyRubberBand on a molecule whose selected atoms have NaN coordinates raised AttributeError (the warning formats molecule.moltype, an attribute Molecule does not have) instead of warning and building no network
exit 1 = the violation reproduces, exit 0 = it does not.
"""
import importlib, os, sys, traceback
sys.path.insert(0, '/verif'); sys.path.insert(1, '/repo')
sys.setrecursionlimit(20000)
mod = importlib.import_module('harness.c15_rubber_band')
if hasattr(mod, 'warmup'):
    try:
        mod.warmup()
    except Exception:
        pass
mod.PART = {'layout': 'lin4', 'selected': [0, 1, 2, 3], 'sep': 1, 'power': 0, 'domain': 'molecule', 'order': 'asc', 'nan_at': 1}
ENGINE = 'sn'
try:
    if ENGINE == 'ch':
        res = getattr(mod, 'run_nan')(*[], **{})
    else:
        from engine.symnum import replay_model
        res = replay_model(getattr(mod, 'run_nan'), {'x0': '0/1', 'x1': '1/2', 'x2': '1/1', 'x3': '3/2', 'lower': '0/1', 'upper': '1/1', 'decay': '0/1', 'base': '500/1', 'minforce': '0/1'})
except Exception:
    traceback.print_exc()
    print('REPRODUCED: unexpected exception from the code under test')
    sys.exit(1)
print('harness result:', repr(res))
if res:
    print('REPRODUCED:', res)
    sys.exit(1)
print('not reproduced')
sys.exit(0)
