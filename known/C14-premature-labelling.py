#!/verif/.venv/bin/python
"""Replay of a solver model against the real code in /repo (no solver, no symbolic engine in this process).
property: C14
harness : harness.c14_ptm.check_ptm
found   : fix_ptm labelled all atoms of the touched residues right after identifying one group of unexplained atoms; an unexplained atom of another group in the same residue then carried a 'modifications' attribute, was taken for part of a requested modification and identify_ptms failed with AssertionError (two modifications touching one residue, e.g. one on CA and one bridging to the next residue)
exit 1 = the violation reproduces, exit 0 = it does not.
"""
import importlib, os, sys, traceback
sys.path.insert(0, '/verif'); sys.path.insert(1, '/repo')
sys.setrecursionlimit(20000)
mod = importlib.import_module('harness.c14_ptm')
if hasattr(mod, 'warmup'):
    try:
        mod.warmup()
    except Exception:
        pass
mod.PART = {'present': ['a1', 'd1'], 'names': ['Q', 'Q']}
ENGINE = 'ch'
try:
    if ENGINE == 'ch':
        res = getattr(mod, 'check_ptm')(*[15], **{})
    else:
        from engine.symnum import replay_model
        res = replay_model(getattr(mod, 'check_ptm'), None)
except Exception:
    traceback.print_exc()
    print('REPRODUCED: unexpected exception from the code under test')
    sys.exit(1)
print('harness result:', repr(res))
if res:
    print('REPRODUCED:', res)
    sys.exit(1)
print('not reproduced')
sys.exit(0)
