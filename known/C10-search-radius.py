#!/verif/.venv/bin/python
"""Replay of a solver model against the real code in /repo (no solver, no symbolic engine in this process).
property: C10
harness : harness.c10_make_bonds.run_kernel
found   : the KD-tree search radius was max_radius*fudge^2 while the criterion is fudge*(r1+r2)/2: for fudge < 1 qualifying pairs were never proposed (C-O at 0.0625 nm, fudge 0.5)
exit 1 = the violation reproduces, exit 0 = it does not.
"""
import importlib, os, sys, traceback
sys.path.insert(0, '/verif'); sys.path.insert(1, '/repo')
sys.setrecursionlimit(20000)
mod = importlib.import_module('harness.c10_make_bonds')
if hasattr(mod, 'warmup'):
    try:
        mod.warmup()
    except Exception:
        pass
mod.PART = {'e1': 'C', 'e2': 'O', 'same_res': True, 'nonedge': False, 'pre': False}
ENGINE = 'sn'
try:
    if ENGINE == 'ch':
        res = getattr(mod, 'run_kernel')(*[], **{})
    else:
        from engine.symnum import replay_model
        res = replay_model(getattr(mod, 'run_kernel'), {'x': '1/16', 'fudge': '1/2'})
except Exception:
    traceback.print_exc()
    print('REPRODUCED: unexpected exception from the code under test')
    sys.exit(1)
print('harness result:', repr(res))
if res:
    print('REPRODUCED:', res)
    sys.exit(1)
print('not reproduced')
sys.exit(0)
