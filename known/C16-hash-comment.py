#!/verif/.venv/bin/python
"""Replay of a solver model against the real code in /repo (no solver, no symbolic engine in this process).
property: C16
harness : harness.c16_structure_roundtrip.check_pdb_text
found   : PDBParser inherits LineParser.parse, which cuts every line at '#' (comment character): an atom name, residue name, chain or insertion code containing '#' truncates the ATOM record, so the following fields (residue number, coordinates, element) are lost or the atom fails to parse
exit 1 = the violation reproduces, exit 0 = it does not.
"""
import importlib, os, sys, traceback
sys.path.insert(0, '/verif'); sys.path.insert(1, '/repo')
sys.setrecursionlimit(20000)
mod = importlib.import_module('harness.c16_structure_roundtrip')
if hasattr(mod, 'warmup'):
    try:
        mod.warmup()
    except Exception:
        pass
mod.PART = {'field': 'chain', "len": 1, "nocarve": True}
ENGINE = 'ch'
try:
    if ENGINE == 'ch':
        res = getattr(mod, 'check_pdb_text')(*[2], **{})
    else:
        from engine.symnum import replay_model
        res = replay_model(getattr(mod, 'check_pdb_text'), None)
except Exception:
    traceback.print_exc()
    print('REPRODUCED: unexpected exception from the code under test')
    sys.exit(1)
print('harness result:', repr(res))
if res:
    print('REPRODUCED:', res)
    sys.exit(1)
print('not reproduced')
sys.exit(0)
