#!/verif/.venv/bin/python
"""Replay of a solver model against the real code in /repo (no solver, no symbolic engine in this process).
property: C01
harness : harness.c01_mapping.check_mod_mapping
found   : mapping a second molecule with the same modification Mapping objects lost the particle the modification mapping creates: apply_mod_mapping appended to the 'modifications' list it had just copied by reference from the mapping's modification node, so the template grew with every use
exit 1 = the violation reproduces, exit 0 = it does not.
"""
import importlib, os, sys, traceback
sys.path.insert(0, '/verif'); sys.path.insert(1, '/repo')
sys.setrecursionlimit(20000)
mod = importlib.import_module('harness.c01_mapping')
if hasattr(mod, 'warmup'):
    try:
        mod.warmup()
    except Exception:
        pass
mod.PART = {'order': ['mA', 'A', 'B'], 'reuse': True}
ENGINE = 'ch'
try:
    if ENGINE == 'ch':
        res = getattr(mod, 'check_mod_mapping')(*[0, 4], **{})
    else:
        from engine.symnum import replay_model
        res = replay_model(getattr(mod, 'check_mod_mapping'), None)
except Exception:
    traceback.print_exc()
    print('REPRODUCED: unexpected exception from the code under test')
    sys.exit(1)
print('harness result:', repr(res))
if res:
    print('REPRODUCED:', res)
    sys.exit(1)
print('not reproduced')
sys.exit(0)
