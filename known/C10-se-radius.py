#!/verif/.venv/bin/python
"""Replay of a solver model against the real code in /repo (no solver, no symbolic engine in this process).
property: C10
harness : harness.c10_make_bonds.run_kernel
found   : VDW_RADII['Se'] was 1.90 nm (Bondi: 1.90 Angstrom = 0.190 nm): selenium bonded to every atom within ~1.2 nm
exit 1 = the violation reproduces, exit 0 = it does not.
"""
import importlib, os, sys, traceback
sys.path.insert(0, '/verif'); sys.path.insert(1, '/repo')
sys.setrecursionlimit(20000)
mod = importlib.import_module('harness.c10_make_bonds')
if hasattr(mod, 'warmup'):
    try:
        mod.warmup()
    except Exception:
        pass
mod.PART = {'e1': 'Se', 'e2': 'C', 'same_res': True, 'nonedge': False, 'pre': False}
ENGINE = 'sn'
try:
    if ENGINE == 'ch':
        res = getattr(mod, 'run_kernel')(*[], **{})
    else:
        from engine.symnum import replay_model
        res = replay_model(getattr(mod, 'run_kernel'), {'x': '-1/1', 'fudge': '1/1'})
except Exception:
    traceback.print_exc()
    print('REPRODUCED: unexpected exception from the code under test')
    sys.exit(1)
print('harness result:', repr(res))
if res:
    print('REPRODUCED:', res)
    sys.exit(1)
print('not reproduced')
sys.exit(0)
