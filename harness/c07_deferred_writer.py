"""C07 - no output from a run with unwaived warnings; existing files are never lost.

Real code executed symbolically (CrossHair): all of vermouth.file_writer (DeferredFileWriter.open, _open_tmp_file,
_find_free_path, write, _write_file, _append_file, close), the library writers write_pdb / write_gro /
write_gmx_topology (through deferred_open), and the gate at the end of bin/martinize2:entry() (statements from
``leftover_warnings = ...`` to the end, extracted with ast on every run) with the real ignore_warnings_and_count.

Environment: os / shutil / tempfile / pathlib.Path / open as seen from vermouth.file_writer are an in-memory file
system; every mutating operation is one step, and the model raises at step ``crash_at``.
"""
import ast
import io
import itertools

from engine.common import ok, no_tracing, RecLogger

PART = {}

META = {
    'engine': 'E1 CrossHair 0.0.110 + z3',
    'technique': 'bounded symbolic execution of the real file_writer code against an in-memory file-system model: destination '
                 'existence and the crash step are solver variables, histories/backup runs are partitioned shapes; the CLI gate '
                 'slice runs with unbounded symbolic warning counts',
    'functions': ['vermouth.file_writer.DeferredFileWriter.open', '_open_tmp_file', '_find_free_path', 'write', '_write_file',
                  '_append_file', 'close', 'vermouth.pdb.pdb.write_pdb', 'vermouth.gmx.gro.write_gro',
                  'vermouth.gmx.topology.write_gmx_topology', 'bin/martinize2:entry (gate slice)',
                  'vermouth.log_helpers.ignore_warnings_and_count'],
    'bounds': {
        'quick': 'two destinations; histories of <= 2 deferred opens (destination selector, mode w/a, written token); destination '
                 'present or absent; the run of existing backups #name.1#..#name.k# with k <= 12 symbolic plus an optional gap; '
                 'file contents are opaque pairwise-distinct tokens; destination existence symbolic; crash at every step of finalisation (crash_at symbolic); close() '
                 'instead of write(); gate: counts of two warning types and errors, one typed and one blanket allowance '
                 '(unbounded integers)',
        'thorough': 'histories of 3 opens, k <= 15',
    },
    'stubs': ['os, shutil, tempfile, pathlib, _open in vermouth.file_writer -> in-memory file system (rename semantics for '
              'shutil.move/os.rename/os.replace: an existing destination is overwritten; every mutating call is one step)',
              'file_writer.LOGGER, martinize2 LOGGER -> recorder', 'gate slice: sys.exit, DeferredFileWriter, vermouth.Quoter are '
              'recording stubs'],
    'assumptions': ['interruption happens between steps of the model (partial writes inside one step and cross-device moves are outside)',
                    'append mode modifies the destination in place by design: after a crash its old content must still be there as a prefix'],
    'outside': ['a real martinize2 run and real disks', "modes r+/w+/a+, binary modes", 'concurrent writers', 'debug dumps requested with -write-*'],
}


class Crash(Exception):
    pass


class FS:
    def __init__(self):
        self.files = {}
        self.steps = 0
        self.crash_at = -1
        self.ntmp = 0
        self.direct_writes = []

    def step(self):
        self.steps += 1
        if self.steps == self.crash_at:
            raise Crash()


FSM = FS()


class MFile:
    def __init__(self, path, mode):
        self.path = path
        self.mode = mode
        self.closed = False
        if 'w' in mode:
            FSM.step()
            FSM.files[path] = ''
        elif 'a' in mode and path not in FSM.files:
            FSM.step()
            FSM.files[path] = ''
        elif 'r' in mode and path not in FSM.files:
            raise FileNotFoundError(path)

    def write(self, data):
        FSM.step()
        FSM.files[self.path] = FSM.files[self.path] + data
        return len(data)

    def writelines(self, lines):
        for line in lines:
            self.write(line)

    def read(self):
        return FSM.files[self.path]

    def flush(self):
        pass

    def close(self):
        self.closed = True

    def __enter__(self):
        return self

    def __exit__(self, *a):
        self.close()
        return False


def m_open(path, mode='r', *a, **k):
    return MFile(str(path), mode)


class m_path:
    @staticmethod
    def exists(p):
        return str(p) in FSM.files

    isfile = exists

    @staticmethod
    def join(*parts):
        import posixpath
        return posixpath.join(*[str(p) for p in parts])

    @staticmethod
    def dirname(p):
        import posixpath
        return posixpath.dirname(str(p))

    @staticmethod
    def basename(p):
        import posixpath
        return posixpath.basename(str(p))


class m_os:
    path = m_path

    @staticmethod
    def remove(p):
        p = str(p)
        if p not in FSM.files:
            raise FileNotFoundError(p)
        FSM.step()
        del FSM.files[p]

    unlink = remove

    @staticmethod
    def rename(src, dst):
        src, dst = str(src), str(dst)
        if src not in FSM.files:
            raise FileNotFoundError(src)
        FSM.step()
        FSM.files[dst] = FSM.files.pop(src)

    replace = rename

    @staticmethod
    def listdir(p='.'):
        import posixpath
        p = str(p)
        return [posixpath.basename(f) for f in FSM.files if posixpath.dirname(f) == p.rstrip('/')]

    @staticmethod
    def fdopen(handle, mode='r', *a, **k):
        return MFile(handle, mode)

    @staticmethod
    def close(handle):
        pass

    @staticmethod
    def fspath(p):
        return str(p)


class m_shutil:
    @staticmethod
    def move(src, dst):
        m_os.rename(src, dst)
        return dst

    @staticmethod
    def copy2(src, dst):
        src, dst = str(src), str(dst)
        if src not in FSM.files:
            raise FileNotFoundError(src)
        FSM.step()
        FSM.files[dst] = FSM.files[src]
        return dst

    copy = copyfile = copy2


class m_tempfile:
    @staticmethod
    def mkstemp(suffix='', prefix='tmp', dir=None, text=False):
        FSM.ntmp += 1
        p = '/tmp/t%d%s' % (FSM.ntmp, suffix)
        FSM.files[p] = ''
        return p, p       # handle == path in the model


def _make_pathlib():
    import pathlib

    class MPath(type(pathlib.PurePosixPath())):
        def exists(self):
            return str(self) in FSM.files

        is_file = exists

        def resolve(self, strict=False):
            return self

        def unlink(self, missing_ok=False):
            if str(self) not in FSM.files:
                if missing_ok:
                    return
                raise FileNotFoundError(str(self))
            m_os.remove(str(self))

        def rename(self, target):
            m_os.rename(str(self), str(target))
            return MPath(str(target))

        replace = rename

        def iterdir(self):
            return [MPath(m_path.join(str(self), name)) for name in m_os.listdir(str(self))]

    class m_pathlib:
        Path = MPath
        PurePath = pathlib.PurePath
    return m_pathlib


_INSTALLED = {}


def install():
    import vermouth.file_writer as fw
    if not _INSTALLED:
        _INSTALLED['orig'] = (fw.os, fw.shutil, fw.tempfile, fw._open, fw.pathlib, fw.LOGGER)
    fw.os = m_os
    fw.shutil = m_shutil
    fw.tempfile = m_tempfile
    fw._open = m_open
    fw.pathlib = _make_pathlib()
    fw.LOGGER = RecLogger()
    return fw


def fresh_writer(fw):
    writer = type.__call__(fw.DeferredFileWriter)      # bypass the singleton: a fresh, independent instance
    return writer


DESTS = ['/d/out.pdb', '/d/top.top']


def backup_name(dest, k):
    import posixpath
    return posixpath.join(posixpath.dirname(dest), '#%s.%d#' % (posixpath.basename(dest), k))


def hist_pre(nb0: int, gap0: int, crash_at: int, d1: int, d2: int, d3: int, do_close: bool) -> bool:
    if nb0 != PART['nb'] or gap0 != PART['gap'] or do_close != PART['close']:
        return False
    if not 0 <= crash_at <= PART['steps']:
        return False
    dests = PART['dests']
    for idx, d in enumerate((d1, d2, d3)):
        if d != (dests[idx] if idx < len(dests) else 0):
            return False
    return True


def tokens_pinned(old0: str, old1: str, b1: str, b2: str, w1: str, w2: str, w3: str) -> bool:
    # contents are opaque, pairwise distinct tokens (file moves never look inside a file); symbolic contents only
    # multiplied the paths by string-equality forks
    return (old0, old1, b1, b2, w1, w2, w3) == ('OLD0', 'OLD1', 'BK', 'BK', 'W1', 'W2', 'W3')


def contents_ok(old0: str, old1: str, b1: str, b2: str, w1: str, w2: str, w3: str) -> bool:
    for s in (old0, old1, b1, b2, w1, w2, w3):
        if len(s) > 2:
            return False
    return True


def check_history(e0: bool, e1: bool, nb0: int, gap0: int, old0: str, old1: str, b1: str, b2: str,
                  d1: int, d2: int, d3: int, w1: str, w2: str, w3: str, crash_at: int, do_close: bool) -> str:
    """
    pre: hist_pre(nb0, gap0, crash_at, d1, d2, d3, do_close)
    pre: tokens_pinned(old0, old1, b1, b2, w1, w2, w3)
    post: _ == ''
    """
    global FSM
    fw = install()
    FSM = FS()
    modes = PART['modes']
    pre = {}
    if e0:
        pre[DESTS[0]] = old0
    if e1:
        pre[DESTS[1]] = old1
    # existing backups of destination 0: #out.pdb.1# .. #out.pdb.nb0# except index gap0 (0 = no gap)
    for k in range(1, nb0 + 1):
        if k != gap0:
            pre[backup_name(DESTS[0], k)] = b1 + str(k)
    FSM.files.update(pre)
    writer = fresh_writer(fw)
    opens = list(zip((d1, d2, d3), (w1, w2, w3), modes))
    for dsel, token, mode in opens:
        handle = writer.open(DESTS[dsel], mode)
        handle.write(token)
        handle.close()
    # (1) nothing but temporary files touched before finalisation
    for name, content in pre.items():
        if FSM.files.get(name) != content:
            return 'a destination or backup changed before finalisation'
    for name in FSM.files:
        if name not in pre and not name.startswith('/tmp/'):
            return 'a file appeared outside the temporary area before finalisation'
    FSM.steps = 0
    FSM.crash_at = crash_at
    crashed = False
    try:
        if do_close:
            writer.close()
        else:
            writer.write()
    except Crash:
        crashed = True
    if do_close:
        for name, content in pre.items():
            if FSM.files.get(name) != content:
                return 'discarding the writer changed an existing file'
        for name in FSM.files:
            if name not in pre and not (crashed and name.startswith('/tmp/')):
                return 'discarding the writer left a file behind'
        return ok()
    # expected final content per destination: replay of the opens in order (later opens of the same path reuse the
    # same temporary file: 'w' truncates it, 'a' appends to it); the first mode decides write vs append at the end
    written = {}
    first_mode = {}
    for dsel, token, mode in opens:
        dest = DESTS[dsel]
        if dest not in written:
            written[dest] = token
            first_mode[dest] = mode
        elif 'w' in mode:
            written[dest] = token
        else:
            written[dest] = written[dest] + token
    # (3) every pre-existing content is still present under its own or a backup name
    family = {d: [d] + [backup_name(d, k) for k in range(1, PART['kmax'] + 3)] for d in DESTS}
    for name, content in pre.items():
        dest = DESTS[0] if 'out.pdb' in name else DESTS[1]
        alive = False
        for cand in family[dest]:
            have = FSM.files.get(cand)
            if have is None:
                continue
            if have == content:
                alive = True
            elif cand == dest == name and 'a' in first_mode.get(dest, '') and have.startswith(content):
                alive = True
        if not alive:
            return 'a pre-existing file was lost (not intact under its own or any backup name)'
    if crashed:
        return ok()
    # (2) uninterrupted finalisation
    for dest, token in written.items():
        old = pre.get(dest)
        if 'a' in first_mode[dest]:
            if FSM.files.get(dest) != (old or '') + token:
                return 'append mode: destination is not old content + what was written'
        else:
            if FSM.files.get(dest) != token:
                return 'destination does not hold exactly what was written for it'
            if old is not None:
                k = 1
                while backup_name(dest, k) in pre:
                    k += 1
                if FSM.files.get(backup_name(dest, k)) != old:
                    return 'the old file is not kept under the first free #name.N# backup name'
                for name, content in pre.items():
                    if '#' in name and FSM.files.get(name) != content:
                        return 'an existing backup was overwritten'
    for name in FSM.files:
        if name.startswith('/tmp/'):
            return 'temporary file left after finalisation'
    return ok()


# ---------------------------------------------------------------------------------- library writers
def _tiny_system():
    import numpy as np
    from vermouth.molecule import Molecule
    from vermouth.system import System
    system = System()
    system.meta['header'] = ['h']
    mol = Molecule(nrexcl=1)
    mol.meta['moltype'] = 'mol_0'
    mol.citations = set()
    for i in range(2):
        mol.add_node(i, atomname='B%d' % i, resname='ALA', resid=1, chain='A', atype='P1', charge_group=i + 1,
                     position=np.array([0.1 * i, 0.0, 0.0]), element='C')
    mol.add_edge(0, 1)
    system.molecules.append(mol)
    return system


def check_writer(exists: bool, old: str) -> str:
    """
    pre: len(old) <= 2
    post: _ == ''
    """
    global FSM
    import builtins
    fw = install()
    FSM = FS()
    kind = PART['writer']
    dest = {'pdb': 'out.pdb', 'gro': 'out.gro', 'top': 'out.top'}[kind]
    writer = fresh_writer(fw)
    import vermouth.pdb.pdb as pdbmod
    import vermouth.gmx.gro as gromod
    import vermouth.gmx.topology as topmod
    saved = (pdbmod.deferred_open, gromod.deferred_open, topmod.deferred_open, builtins.open)
    resolved = str(fw.pathlib.Path(dest).parent.resolve() / dest)
    if exists:
        FSM.files[resolved] = old
    before = dict(FSM.files)
    direct = []

    def guarded_open(path, mode='r', *a, **k):
        if any(ch in mode for ch in 'wax+') and not str(path).startswith('/tmp/'):
            direct.append(str(path))
        return saved[3](path, mode, *a, **k)
    with no_tracing():
        system = _tiny_system()
    pdbmod.deferred_open = gromod.deferred_open = topmod.deferred_open = writer.open
    topmod_logger = topmod.LOGGER
    topmod.LOGGER = RecLogger()
    builtins.open = guarded_open
    try:
        if kind == 'pdb':
            pdbmod.write_pdb(system, dest)
        elif kind == 'gro':
            gromod.write_gro(system, dest)
        else:
            topmod.write_gmx_topology(system, dest)
    finally:
        pdbmod.deferred_open, gromod.deferred_open, topmod.deferred_open, builtins.open = saved
        topmod.LOGGER = topmod_logger
    if direct:
        return 'a library writer opened its destination directly instead of through the deferred writer'
    for name, content in before.items():
        if FSM.files.get(name) != content:
            return 'a library writer touched an existing file before finalisation'
    if any(not name.startswith('/tmp/') and name not in before for name in FSM.files):
        return 'a library writer created its destination before finalisation'
    writer.write()
    if resolved not in FSM.files or FSM.files[resolved] == (old if exists else None) or not FSM.files[resolved]:
        return 'destination missing or empty after finalisation'
    if exists and FSM.files.get(backup_name(resolved, 1)) != old:
        return 'old file not backed up by finalisation'
    return ok()


# ---------------------------------------------------------------------------------- CLI gate
_GATE = {}


def gate_function():
    """Compile the tail of bin/martinize2:entry() (from the leftover-warnings statement on) into a function."""
    if 'fn' in _GATE:
        return _GATE['fn'], _GATE['finalisers_outside']
    source = open('/repo/bin/martinize2').read()
    tree = ast.parse(source)
    entry = [n for n in tree.body if isinstance(n, ast.FunctionDef) and n.name == 'entry'][0]
    start = None
    for idx, stmt in enumerate(entry.body):
        if isinstance(stmt, ast.Assign) and any(isinstance(t, ast.Name) and t.id == 'leftover_warnings' for t in stmt.targets):
            start = idx
    if start is None:
        raise RuntimeError('gate statement not found in bin/martinize2')
    tail = entry.body[start:]
    fn = ast.FunctionDef(name='_gate', args=ast.arguments(posonlyargs=[], args=[ast.arg(arg=a) for a in
                         ('COUNTER', 'args', 'LOGGER', 'sys', 'DeferredFileWriter', 'vermouth', 'system',
                          'ignore_warnings_and_count')], kwonlyargs=[], kw_defaults=[], defaults=[]),
                         body=tail, decorator_list=[], type_params=[])
    module = ast.Module(body=[fn], type_ignores=[])
    ast.fix_missing_locations(module)
    env = {}
    exec(compile(module, 'martinize2-gate', 'exec'), env)
    # finalisation anywhere else in the CLI (before the gate) would bypass it
    outside = 0
    tail_nodes = {id(n) for stmt in tail for n in ast.walk(stmt)}
    for node in ast.walk(tree):
        if isinstance(node, ast.Attribute) and node.attr == 'write' and isinstance(node.value, ast.Call) \
                and isinstance(node.value.func, ast.Name) and node.value.func.id == 'DeferredFileWriter' \
                and id(node) not in tail_nodes:
            outside += 1
    _GATE['fn'] = env['_gate']
    _GATE['finalisers_outside'] = outside
    return _GATE['fn'], outside


class _Exit(Exception):
    def __init__(self, code):
        self.code = code


def check_gate(wa: int, wb: int, err: int, la: int, lb: int) -> str:
    """
    pre: wa >= 0 and wb >= 0 and err >= 0
    post: _ == ''
    """
    import logging
    import types
    from vermouth.log_helpers import CountingHandler, ignore_warnings_and_count
    from engine.chsym import pos
    with no_tracing():
        gate, outside = gate_function()
    if outside:
        return 'bin/martinize2 finalises deferred output outside the warning gate'
    counter = CountingHandler()
    if wa > 0:
        counter.counts[logging.WARNING]['a'] = wa
    if wb > 0:
        counter.counts[logging.WARNING]['b'] = wb
    if err > 0:
        counter.counts[logging.ERROR]['a'] = err
    specs = []
    if PART['typed']:
        specs.append([('a', la)])
    if PART['blanket']:
        specs.append([(None, lb)])
    calls = []

    class Writer:
        def write(self):
            calls.append('write')

        def close(self):
            calls.append('close')

    class Quoter:
        def run_system(self, system):
            calls.append('quote')

    class FakeSys:
        @staticmethod
        def exit(code=0):
            raise _Exit(code)
    fake_vermouth = types.SimpleNamespace(Quoter=Quoter)
    args = types.SimpleNamespace(maxwarn=specs)
    code = 0
    try:
        gate(counter, args, RecLogger(), FakeSys, Writer, fake_vermouth, None, ignore_warnings_and_count)
    except _Exit as exc:
        code = exc.code
    typed = pos(wa - pos(la)) if PART['typed'] else None
    rest = wb if PART['typed'] else wa + wb
    left = err + (typed if typed is not None else 0) + (pos(rest - pos(lb)) if PART['blanket'] else rest)
    wrote = 'write' in calls
    if left == 0:
        if not wrote or code != 0:
            return 'every warning is waived but the output was not finalised'
    else:
        if wrote:
            return 'output finalised although warnings are left after -maxwarn'
        if code == 0 or code is None:
            return 'warnings left but the exit status is zero'
    return ok()


def warmup():
    global PART
    saved = PART
    PART = {'modes': ['w', 'a'], 'dests': [0, 1], 'kmax': 12, 'steps': 12, 'nb': 3, 'gap': 2, 'close': False}
    check_history(True, False, 3, 2, 'OLD0', 'OLD1', 'BK', 'BK', 0, 1, 0, 'W1', 'W2', 'W3', 0, False)
    PART = {'modes': ['w', 'a'], 'dests': [0, 0], 'kmax': 12, 'steps': 12, 'nb': 11, 'gap': 0, 'close': False}
    check_history(True, True, 11, 0, 'OLD0', 'OLD1', 'BK', 'BK', 0, 0, 0, 'W1', 'W2', 'W3', 2, False)
    for w in ('pdb', 'gro', 'top'):
        PART = {'writer': w}
        check_writer(True, 'o')
    PART = {'typed': True, 'blanket': True}
    check_gate(2, 1, 0, 2, 1)
    PART = saved


def selftest(seed):
    import random
    global PART
    rng = random.Random(seed)
    runs, failures = 0, []
    for _ in range(300):
        nopen = rng.randint(1, 3)
        nb = rng.randint(0, 12)
        dests = [rng.randint(0, 1) for _ in range(nopen)]
        PART = {'modes': [rng.choice('wa') for _ in range(nopen)], 'dests': dests, 'kmax': 12, 'steps': 12, 'nb': nb,
                'gap': rng.randint(0, nb), 'close': rng.random() < 0.2}
        args = [rng.random() < 0.6, rng.random() < 0.5, nb, PART['gap'], 'OLD0', 'OLD1', 'BK', 'BK'] + \
               (dests + [0, 0, 0])[:3] + ['W1', 'W2', 'W3', rng.randint(0, 12), PART['close']]
        res = check_history(*args)
        runs += 1
        if res != ok():
            failures.append('check_history%r %r -> %s' % (tuple(args), PART, res))
    for w in ('pdb', 'gro', 'top'):
        PART = {'writer': w}
        for ex in (True, False):
            res = check_writer(ex, 'o')
            runs += 1
            if res != ok():
                failures.append('check_writer %s -> %s' % (w, res))
    for _ in range(50):
        PART = {'typed': rng.random() < 0.5, 'blanket': rng.random() < 0.5}
        args = [rng.randint(0, 3), rng.randint(0, 3), rng.randint(0, 1), rng.randint(-1, 4), rng.randint(-1, 4)]
        res = check_gate(*args)
        runs += 1
        if res != ok():
            failures.append('check_gate%r %r -> %s' % (tuple(args), PART, res))
    return {'runs': runs, 'failures': failures[:3]}


def cases(tier):
    out = []
    kmax = 12
    if tier == 'quick':
        combos = [(m, d) for n in (1, 2) for m in itertools.product('wa', repeat=n) for d in ([(0,)] if n == 1 else [(0, 0), (0, 1)])]
        nbs = [0, 1, 2, 9, 10, 11]
    else:
        combos = [(m, d) for n in (1, 2, 3) for m in itertools.product('wa', repeat=n)
                  for d in itertools.product((0, 1), repeat=n) if d[0] == 0]
        nbs = list(range(0, 13))
    for modes, dests in combos:
        for nb in nbs:
            gaps = [0] + ([1] if nb >= 1 else []) + ([nb // 2] if nb >= 9 else [])
            for gap in gaps:
                for close in ([False, True] if nb in (0, 2) and gap == 0 else [False]):
                    part = {'modes': list(modes), 'dests': list(dests), 'kmax': kmax, 'steps': 3 + 4 * len(modes), 'nb': nb,
                            'gap': gap, 'close': close}
                    out.append({'fn': 'check_history', 'part': part,
                                'label': 'history[%s dests%s nb%d gap%d close%d]' % (''.join(modes), ''.join(map(str, dests)), nb, gap, close),
                                'timeout': 600, 'path_timeout': 30, 'twin': nb == 1 and gap == 0})
    for w in ('pdb', 'gro', 'top'):
        out.append({'fn': 'check_writer', 'part': {'writer': w}, 'label': 'writer[%s]' % w, 'timeout': 600})
    for typed, blanket in itertools.product((False, True), repeat=2):
        out.append({'fn': 'check_gate', 'part': {'typed': typed, 'blanket': blanket}, 'label': 'gate[t%d b%d]' % (typed, blanket),
                    'timeout': 600})
    return out
