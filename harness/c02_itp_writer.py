"""C02 - a written ITP states exactly the molecule held in memory.

Real code executed symbolically (CrossHair): vermouth.gmx.itp.write_molecule_itp, _interaction_sorting_key,
Molecule.sorted_nodes, Molecule.sort_interactions.  The text is read back by an independent reader in this file.

data (solver): the atom id of every atom that has one (unbounded integers, duplicates allowed: every order and
every tie is decided).  shape (partition): node-key layout, which atoms carry an atom id, interaction set,
charge/mass present.
"""
import io
import itertools

from engine.common import ok, no_tracing

PART = {}

META = {
    'engine': 'E1 CrossHair 0.0.110 + z3',
    'functions': ['vermouth.gmx.itp.write_molecule_itp', 'vermouth.gmx.itp._interaction_sorting_key',
                  'vermouth.molecule.Molecule.sorted_nodes', 'Molecule.sort_interactions'],
    'bounds': {
        'quick': '4 atoms, 3 node-key layouts (ordered, sparse unordered, reversed), every subset of atoms carrying an atom id, '
                 'atom ids unbounded integers; 2 interaction sets covering bonds/angles/dihedrals/impropers/virtual_sitesn/'
                 'exclusions/constraints/position_restraints with ifdef/ifndef guards, groups, comments, versions, zero-valued '
                 'numeric parameters; charge and mass present or absent',
        'thorough': '5 atoms with <= 3 atom ids, 4 interaction sets',
    },
    'stubs': [],
    'assumptions': ['resid, charge_group, charge, mass are concrete: the writer renders them with format() (C boundary); the '
                    'renumbering, which is the subject, depends only on atom ids and node keys',
                    'atoms are identified in the read-back text by their (unique) atom names'],
    'outside': ['pre/post section lines, #define meta', 'molecules with more than 5 atoms'],
}

LAYOUTS = {'ordered': [0, 1, 2, 3, 4], 'sparse': [7, 2, 40, 3, 11], 'reversed': [4, 3, 2, 1, 0]}
ARITY = {'bonds': 2, 'angles': 3, 'dihedrals': 4, 'constraints': 2, 'pairs': 2, 'position_restraints': 1}


def interaction_sets(n):
    """Interactions in terms of atom positions 0..n-1 (position in node order)."""
    last = n - 1
    sets = {
        'A': [
            ('bonds', (0, 1), ['1', '0.30', '1000'], {}),
            ('bonds', (2, 1), ['1', '0.31', '900'], {'ifdef': 'FLEX'}),
            ('bonds', (last, 0), [1, 0.33, 0], {'group': 'g1', 'comment': 'zero force constant'}),
            ('angles', (0, 1, 2), ['2', '120', '25'], {'group': 'g1'}),
            ('dihedrals', (0, 1, 2, last), ['1', '0', '5', '1'], {}),
            ('dihedrals', (0, 1, 2, last), ['1', 0.0, 2.5, 2], {'version': 1}),
            ('impropers', (last, 0, 1, 2), ['2', '0', '50'], {}),
            ('virtual_sitesn', (last, 0, 1), ['1'], {}),
            ('exclusions', (0, 2, last), [], {}),
        ],
        'B': [
            ('constraints', (1, 0), ['1', '0.24'], {'ifndef': 'FLEXIBLE'}),
            ('bonds', (1, 0), ['1', '0.24', '10000'], {'ifdef': 'FLEXIBLE'}),
            ('bonds', (1, 2), ['1', '0.35', '1250'], {'ifdef': 'FLEXIBLE', 'group': 'side'}),
            ('bonds', (2, last), ['6', '0.5', '500'], {'group': 'Rubber band'}),
            ('angles', (last, 2, 1), ['10', 0, '15'], {'ifdef': 'OTHER', 'comment': 'c'}),
            ('position_restraints', (0,), ['1', 'POSRES_FC', 'POSRES_FC', 'POSRES_FC'], {'ifdef': 'POSRES'}),
            ('position_restraints', (2,), ['1', 1000, 1000, 0], {'ifdef': 'POSRES'}),
            ('pairs', (0, last), ['1'], {}),
            ('virtual_sitesn', (2, 0, 1, last), ['2'], {'group': 'vs'}),
        ],
        'C': [
            ('bonds', (0, 1), ['1'], {}), ('bonds', (0, 1), ['2'], {'version': 1}), ('bonds', (1, 0), ['3'], {}),
            ('exclusions', (last, 0), [], {'ifdef': 'X'}), ('exclusions', (1, 2, 0), [], {}),
            ('impropers', (0, 1, 2, last), ['2', 0, 0], {'group': 'imp'}),
        ],
        'D': [
            ('angles', (2, 1, 0), ['1', '100', '10'], {'ifndef': 'A'}), ('angles', (0, 1, 2), ['1', '100', '10'], {'ifdef': 'A'}),
            ('angles', (0, 1, last), ['1', '90', '10'], {'ifdef': 'B', 'group': 'x'}),
            ('dihedrals', (last, 2, 1, 0), ['9', '180', '1', '1'], {'group': 'a'}),
            ('dihedrals', (last, 2, 1, 0), ['9', '0', '2', '2'], {'group': 'a', 'version': 2}),
        ],
    }
    return sets


def build(atomids, n):
    from vermouth.molecule import Molecule
    keys = LAYOUTS[PART['layout']][:n]
    mol = Molecule(nrexcl=1)
    mol.meta['moltype'] = 'TEST'
    has_id = PART['has_id']
    for pos, key in enumerate(keys):
        attrs = dict(atype='T%d' % pos, resid=1 + pos // 2, resname='RES', atomname='N%d' % pos, charge_group=pos + 1)
        if PART.get('charge_mass'):
            attrs['charge'] = 0.5 * pos
            attrs['mass'] = 72.0
        if has_id[pos]:
            attrs['atomid'] = atomids[pos]
        mol.add_node(key, **attrs)
    inters = interaction_sets(n)[PART['iset']]
    for itype, positions, params, meta in inters:
        mol.add_interaction(itype, tuple(keys[p] for p in positions), list(params), dict(meta))
    return mol, keys, inters


def read_itp(text):
    """Independent reader: returns (atoms, interactions). interactions: (section, atom indices, parameter text, guard)."""
    atoms = []
    interactions = []
    section = None
    guard = None
    for raw in text.split('\n'):
        line = raw.split(';', 1)[0].strip()
        if not line:
            continue
        if line.startswith('['):
            section = line.strip('[] ').strip()
            continue
        if line.startswith('#ifdef'):
            guard = ('ifdef', line.split()[1])
            continue
        if line.startswith('#ifndef'):
            guard = ('ifndef', line.split()[1])
            continue
        if line.startswith('#endif'):
            guard = None
            continue
        tokens = line.split()
        if section == 'moleculetype':
            continue
        if section == 'atoms':
            atoms.append(tokens)
        elif section == 'virtual_sitesn':
            interactions.append((section, [int(tokens[0])] + [int(t) for t in tokens[2:]], tokens[1], guard))
        elif section == 'exclusions':
            interactions.append((section, [int(t) for t in tokens], '', guard))
        else:
            k = ARITY[section]
            interactions.append((section, [int(t) for t in tokens[:k]], ' '.join(tokens[k:]), guard))
    return atoms, interactions


def check_roundtrip(i0: int, i1: int, i2: int, i3: int, i4: int) -> str:
    """
    post: _ == ''
    """
    from vermouth.gmx.itp import write_molecule_itp
    n = PART['n']
    atomids = [i0, i1, i2, i3, i4][:n]
    mol, keys, inters = build(atomids, n)
    with no_tracing():
        before = {t: [(tuple(i.atoms), tuple(i.parameters), dict(i.meta)) for i in lst] for t, lst in mol.interactions.items()}
    out = io.StringIO()
    write_molecule_itp(mol, out)
    text = out.getvalue()
    again = io.StringIO()
    write_molecule_itp(mol, again)
    with no_tracing():
        after = {t: [(tuple(i.atoms), tuple(i.parameters), dict(i.meta)) for i in lst] for t, lst in mol.interactions.items() if lst}
        before = {t: lst for t, lst in before.items() if lst}
    if after != before:
        return 'writing the ITP changed the molecule held in memory'
    if str(again.getvalue()) != str(text):
        return 'writing the same molecule twice gives two different ITPs'
    with no_tracing():       # the text is concrete (only atom ids are symbolic and they are never printed)
        atoms, lines = read_itp(str(text))
    # ---- atoms: numbered 1..N without gaps, every atom once, in atom-id order (ties and id-less atoms in node order)
    if len(atoms) != n:
        return 'number of [ atoms ] lines differs from the number of atoms'
    index_to_pos = {}
    for k, tokens in enumerate(atoms, start=1):
        if int(tokens[0]) != k:
            return 'atoms are not numbered 1..N without gaps'
        pos = int(tokens[4][1:])
        if pos in index_to_pos.values():
            return 'an atom is written twice'
        index_to_pos[k] = pos
        want = ['T%d' % pos, str(1 + pos // 2), 'RES', 'N%d' % pos, str(pos + 1)]
        if PART.get('charge_mass'):
            want += [str(0.5 * pos), '72.0']
        if tokens[1:] != want:
            return 'an [ atoms ] line does not state the atom held in memory'
    has_id = PART['has_id']
    order = [index_to_pos[k] for k in range(1, n + 1)]
    for a, b in zip(order, order[1:]):
        if has_id[a] and has_id[b]:
            if atomids[a] > atomids[b] or (atomids[a] == atomids[b] and a > b):
                return 'atoms are not written in atom-id order'
        elif not has_id[a] and (has_id[b] or a > b):
            return 'atoms without atom id are not written last in node order'
    # ---- interactions: each exactly once, right section, same atoms, same parameters, same guard
    remaining = list(lines)
    for itype, positions, params, meta in inters:
        section = 'dihedrals' if itype == 'impropers' else itype
        guard = ('ifdef', meta['ifdef']) if 'ifdef' in meta else (('ifndef', meta['ifndef']) if 'ifndef' in meta else None)
        ptext = ' '.join(str(p) for p in params)
        found = None
        for idx, (sec, indices, text, grd) in enumerate(remaining):
            if sec == section and grd == guard and text == ptext and [index_to_pos.get(i) for i in indices] == list(positions):
                found = idx
                break
        if found is None:
            return 'an interaction is missing, attached to other atoms, in the wrong section/guard or has other parameters'
        del remaining[found]
    if remaining:
        return 'the ITP contains an interaction line the molecule does not have'
    return ok()


def warmup():
    global PART
    saved = PART
    for iset in 'ABCD':
        PART = {'n': 4, 'layout': 'sparse', 'has_id': [True, True, False, True, True], 'iset': iset, 'charge_mass': iset in 'AC'}
        res = check_roundtrip(5, 2, 0, 2, 1)
        assert res == ok(), (iset, res)
    PART = saved


def selftest(seed):
    import random
    global PART
    rng = random.Random(seed)
    runs, failures = 0, []
    for _ in range(200):
        n = rng.choice([4, 5])
        PART = {'n': n, 'layout': rng.choice(list(LAYOUTS)), 'has_id': [rng.random() < 0.7 for _ in range(5)],
                'iset': rng.choice('ABCD'), 'charge_mass': rng.random() < 0.5}
        ids = [rng.randint(-2, 6) for _ in range(5)]
        res = check_roundtrip(*ids)
        runs += 1
        if res != ok():
            failures.append('check_roundtrip%r %r -> %s' % (tuple(ids), PART, res))
    return {'runs': runs, 'failures': failures[:3]}


def cases(tier):
    out = []
    n = 4 if tier == 'quick' else 5
    isets = 'AB' if tier == 'quick' else 'ABCD'
    k = 0
    for layout in LAYOUTS:
        for has_id in itertools.product((True, False), repeat=n):
            for iset in isets:
                k += 1
                if tier == 'thorough' and sum(has_id) > 3:
                    continue        # 5 atoms: at most 3 atom ids (orderings of 4-5 ids cost 75-541 paths per case)
                if tier == 'quick' and iset == 'B' and layout != 'sparse':
                    continue
                out.append({'fn': 'check_roundtrip',
                            'part': {'n': n, 'layout': layout, 'has_id': list(has_id) + [False] * (5 - n), 'iset': iset,
                                     'charge_mass': k % 2 == 0},
                            'label': 'itp[%s ids%s set%s cm%d]' % (layout, ''.join('1' if b else '0' for b in has_id), iset, k % 2 == 0),
                            'timeout': 600, 'path_timeout': 30, 'twin': all(has_id) and iset == 'A'})
    if tier == 'quick':
        for iset in 'CD':
            out.append({'fn': 'check_roundtrip', 'part': {'n': 4, 'layout': 'sparse', 'has_id': [True, True, True, False, False],
                                                         'iset': iset, 'charge_mass': False},
                        'label': 'itp[sparse ids1110 set%s]' % iset, 'timeout': 600, 'path_timeout': 30})
    return out
