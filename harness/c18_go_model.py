"""C18 - Go-model sites and contacts mirror the backbone and the contact map.

Real code executed on proxy reals (engine E2): VirtualSiteCreator.run_system / add_virtual_sites,
ComputeStructuralGoBias.run_system / run_molecule / contact_selector / _chain_id_to_resnode /
compute_go_interaction, go_utils.get_go_type_from_attributes, make_residue_graph.
"""
import itertools

from engine.common import ok, RecLogger

PART = {}

META = {
    'engine': 'E2 symnum (proxy execution over z3 reals)',
    'functions': ['vermouth.rcsu.go_vs_includes.VirtualSiteCreator.run_system', 'add_virtual_sites',
                  'vermouth.rcsu.go_structure_bias.ComputeStructuralGoBias.run_system', 'contact_selector',
                  '_chain_id_to_resnode', 'compute_go_interaction', 'vermouth.rcsu.go_utils.get_go_type_from_attributes',
                  'vermouth.graph_utils.make_residue_graph'],
    'bounds': {
        'quick': 'molecules of 3-5 residues (one or two chains with overlapping input numbering, disulfide-like cross-link, '
                 'side beads, sparse node keys); backbone coordinates on a line, both cut-offs and epsilon real-valued; '
                 'contact lists of <= 4 entries chosen from the list families below (one-directional, symmetric, referring to '
                 'absent residues/chains, several contacts of one residue); separation 1..3',
        'thorough': 'every contact sub-list of <= 4 entries over the 5-residue molecule',
    },
    'stubs': ['go_structure_bias.LOGGER / go_vs_includes.LOGGER -> recorder', 'numpy.linalg.norm on proxies = exact sqrt (y>=0, y*y=t)'],
    'assumptions': ['ideal real arithmetic; sigma * c = distance with c the double the code uses for 2^(1/6) (lifted exactly; '
                    '|c^6 - 2| < 1e-12 is checked concretely)', 'residue numbering concrete (it is hashed by the code)'],
    'outside': ['contact-map generation from coordinates (contact_map.py)', 'writing the parameters to files (C07 covers deferral)',
                'contact lists with repeated entries'],
}

# residues: (chain, new resid, old resid, has side bead); edges between residues (backbone), cross links between side beads
MOLS = {
    'lin4': dict(res=[('A', 1, 1, False), ('A', 2, 2, True), ('A', 3, 3, False), ('A', 4, 4, True)],
                 bb=[(0, 1), (1, 2), (2, 3)], cross=[]),
    'lin5x': dict(res=[('A', 1, 11, True), ('A', 2, 12, False), ('A', 3, 13, False), ('A', 4, 14, False), ('A', 5, 15, True)],
                  bb=[(0, 1), (1, 2), (2, 3), (3, 4)], cross=[(0, 4)]),
    'dimer': dict(res=[('A', 1, 1, False), ('A', 2, 2, False), ('B', 3, 1, False), ('B', 4, 2, False)],
                  bb=[(0, 1), (2, 3)], cross=[]),
}


def _vec(ctx, x):
    import numpy as np
    if ctx.symbolic:
        from engine.symnum import wrap, as_sym
        return wrap(np.array([as_sym(x), as_sym(0), as_sym(0)], dtype=object))
    return np.array([float(x), 0.0, 0.0])


def _build(ctx, xs):
    from vermouth.molecule import Molecule
    from vermouth.forcefield import ForceField
    from vermouth.system import System
    spec = MOLS[PART['mol']]
    ff = ForceField(name='c18')
    mol = Molecule(force_field=ff)
    mol.meta['moltype'] = 'mol'
    keys = {}
    key = PART.get('key0', 0)
    step = PART.get('keystep', 1)
    cg = 1
    for ridx, (chain, resid, old, side) in enumerate(spec['res']):
        mol.add_node(key, atomname='BB', atype='P2', resname='ALA', resid=resid, _old_resid=old, chain=chain,
                     position=_vec(ctx, xs[ridx]), charge_group=cg, charge=0.0, mass=72.0)
        keys[(ridx, 'BB')] = key
        key += step
        cg += 1
        if side:
            mol.add_node(key, atomname='SC1', atype='C3', resname='ALA', resid=resid, _old_resid=old, chain=chain,
                         position=_vec(ctx, xs[ridx] + 0.05), charge_group=cg, charge=0.0, mass=72.0)
            mol.add_edge(keys[(ridx, 'BB')], key)
            keys[(ridx, 'SC1')] = key
            key += step
            cg += 1
    for a, b in spec['bb']:
        mol.add_edge(keys[(a, 'BB')], keys[(b, 'BB')])
    for a, b in spec['cross']:
        mol.add_edge(keys[(a, 'SC1')], keys[(b, 'SC1')])
    system = System(force_field=ff)
    system.molecules.append(mol)
    return system, mol, keys


def _sites(ctx, system, mol, keys):
    import vermouth.rcsu.go_vs_includes as gvi
    gvi.LOGGER = RecLogger()
    before = {k: dict(v) for k, v in mol.nodes.items()}
    gvi.VirtualSiteCreator(go_anchor_bead='BB', go_atomname='CA').run_system(system)
    mol = system.molecules[0]
    spec = MOLS[PART['mol']]
    new = [k for k in mol.nodes if k not in before]
    bbs = [keys[(r, 'BB')] for r in range(len(spec['res']))]
    ctx.claim(len(new) == len(bbs), 'number of virtual sites differs from the number of backbone particles')
    ctx.claim(all(k > max(before) for k in new), 'a virtual site is not placed after all existing atoms')
    for k, attrs in before.items():
        ctx.claim(k in mol.nodes and all(mol.nodes[k].get(a) is v or mol.nodes[k].get(a) == v for a, v in attrs.items()
                                          if a != 'position'), 'an existing atom was changed by site creation')
    site_of = {}
    vs = mol.interactions.get('virtual_sitesn', [])
    ctx.claim(len(vs) == len(bbs), 'number of virtual_sitesn constructions differs from the number of backbone particles')
    for inter in vs:
        site, parent = inter.atoms
        ctx.claim(site in new and parent in bbs and site not in site_of.values() and parent not in site_of,
                  'virtual site constructed from something else than its own backbone particle')
        site_of[parent] = site
        ctx.claim(list(inter.parameters) == ['1'], 'virtual site function type')
    types = []
    for ridx, (chain, resid, old, side) in enumerate(spec['res']):
        bb = keys[(ridx, 'BB')]
        site = site_of.get(bb)
        if site is None:
            ctx.claim(False, 'backbone particle without virtual site')
            continue
        attrs = mol.nodes[site]
        ctx.claim(attrs['position'] is mol.nodes[bb]['position'], 'site not co-located with its backbone particle')
        ctx.claim((attrs['resid'], attrs['_old_resid'], attrs['resname'], attrs['chain']) == (resid, old, 'ALA', chain),
                  'site does not carry the residue identity of its backbone particle')
        ctx.claim(attrs['mass'] == 0 and attrs['charge'] == 0, 'site mass/charge not zero')
        ctx.claim(attrs['atype'] == 'mol_%d' % resid, 'site type is not <moltype>_<resid>')
        ctx.claim(attrs['atomname'] == 'CA', 'site atom name')
        types.append(attrs['atype'])
    ctx.claim(len(set(types)) == len(types), 'site types are not unique')
    cgs = [mol.nodes[k]['charge_group'] for k in mol.nodes]
    ctx.claim(len(set(cgs)) == len(cgs), 'site shares a charge group')
    return mol, site_of


def run_go(ctx):
    import vermouth.rcsu.go_structure_bias as gsb
    spec = MOLS[PART['mol']]
    n = len(spec['res'])
    xs = [ctx.real('x%d' % i) for i in range(n)]
    short = ctx.real('short', lo=0)
    long_ = ctx.real('long', lo=0)
    eps = ctx.real('eps')
    system, mol, keys = _build(ctx, xs)
    mol, site_of = _sites(ctx, system, mol, keys)
    recorder = RecLogger()
    gsb.LOGGER = recorder
    contacts = [tuple(c) for c in PART['contacts']]       # (residA index or (old, chain) literal ...)
    go_map = []
    for c in contacts:
        if c[0] == 'res':
            _, a, b = c
            go_map.append((spec['res'][a][2], spec['res'][a][0], spec['res'][b][2], spec['res'][b][0]))
        else:
            go_map.append(tuple(c[1:]))
    system.go_params['go_map'] = [go_map]
    proc = gsb.ComputeStructuralGoBias(cutoff_short=short, cutoff_long=long_, go_eps=eps, res_dist=PART['sep'],
                                       moltype='mol', go_anchor_bead='BB')
    proc.run_system(system)
    mol = system.molecules[0]
    # ---- oracle
    import networkx as nx
    rg = nx.Graph()
    rg.add_nodes_from(range(n))
    rg.add_edges_from(spec['bb'])
    rg.add_edges_from(spec['cross'])
    gdist = dict(nx.all_pairs_shortest_path_length(rg))
    lookup = {(chain, old): idx for idx, (chain, resid, old, side) in enumerate(spec['res'])}
    listed = set()
    for old_a, chain_a, old_b, chain_b in go_map:
        a, b = lookup.get((chain_a, old_a)), lookup.get((chain_b, old_b))
        if a is not None and b is not None:
            listed.add((a, b))
    params = system.gmx_topology_params['nonbond_params']
    got = {}
    for p in params:
        key = frozenset(p.atoms)
        if key in got:
            ctx.claim(False, 'a residue pair received two Go potentials')
        got[key] = p
    excl = {}
    for inter in mol.interactions.get('exclusions', []):
        key = frozenset(inter.atoms)
        if key in excl:
            ctx.claim(False, 'a backbone pair is excluded twice')
        excl[key] = inter
    c = proc.conversion_factor
    ctx.claim(abs(c ** 6 - 2.0) < 1e-12, 'conversion factor is not 2^(1/6)')
    expected_keys = set()
    for a, b in itertools.combinations(range(n), 2):
        ta, tb = 'mol_%d' % spec['res'][a][1], 'mol_%d' % spec['res'][b][1]
        key = frozenset((ta, tb))
        bkey = frozenset((keys[(a, 'BB')], keys[(b, 'BB')]))
        d = ctx.abs(xs[a] - xs[b])
        both = (a, b) in listed and (b, a) in listed
        far = gdist[a].get(b, 10 ** 6) > PART['sep']
        want = ctx.all([both, far, d > short, d < long_])
        have = key in got
        ctx.claim(ctx.iff(have, want), 'Go potential for residues %d,%d present/absent against the stated conditions' % (a, b))
        ctx.claim((bkey in excl) == have, 'exclusion between the backbone particles of %d,%d does not follow the Go potential' % (a, b))
        if have:
            expected_keys.add(key)
            p = got[key]
            if ctx.symbolic:
                ctx.claim(ctx.close(p.sigma * c, d), 'sigma is not distance / 2^(1/6)')
                ctx.claim(ctx.close(p.epsilon, eps), 'epsilon is not the requested depth')
            else:
                ctx.claim(abs(float(p.sigma) * c - float(d)) <= 1e-9 * max(1.0, float(d)), 'sigma is not distance / 2^(1/6)')
                ctx.claim(float(p.epsilon) == float(eps), 'epsilon is not the requested depth')
    ctx.claim(set(got) == expected_keys, 'a Go potential exists for something that is not a residue pair of the molecule')
    ctx.observe('pairs', sorted(tuple(sorted(k)) for k in got))


def _values_for(fn, rng):
    from engine.symnum import ConcreteCtx

    class Sampler(ConcreteCtx):
        def real(self, name, lo=None, hi=None):
            if name not in self.values:
                if name == 'short':
                    v = rng.choice([0.0, 0.3])
                elif name == 'long':
                    v = rng.choice([0.8, 1.1, 2.0])
                elif name == 'eps':
                    v = rng.choice([9.414, 12.0])
                else:
                    v = round(rng.uniform(0, 2.0), 2)
                self.values[name] = v
            return float(self.values[name])
    ctx = Sampler({})
    try:
        fn(ctx)
    except Exception:
        pass
    return ctx.values


def selftest(seed):
    import random
    from engine.symnum import run_concrete, differential
    global PART
    rng = random.Random(seed)
    runs, failures = 0, []
    for case in cases('quick')[::5]:
        PART = dict(case['part'])
        values = _values_for(run_go, rng)
        fails, _ = run_concrete(run_go, values)
        runs += 1
        if fails:
            failures.append('%s native %r: %s' % (case['label'], values, fails[:1]))
        diff = differential(run_go, values)
        runs += 1
        if diff not in ('', 'skipped'):
            failures.append('%s differential %r: %s' % (case['label'], values, diff))
    return {'runs': runs, 'failures': failures[:3]}


def warmup():
    pass


def _families(mol):
    n = len(MOLS[mol]['res'])
    r = lambda a, b: ['res', a, b]
    fams = [
        [],
        [r(0, n - 1)],                                   # one-directional
        [r(0, n - 1), r(n - 1, 0)],                      # symmetric
        [r(0, 2), r(0, n - 1), r(2, 0), r(n - 1, 0)],    # two contacts of residue 0, listed sorted by first residue
        [r(0, n - 1), r(n - 1, 0), r(0, 1), r(1, 0)],    # neighbour contact (too close along the graph)
        [r(0, n - 1), ['lit', 99, 'A', 1, 'A'], r(n - 1, 0)],           # refers to an absent residue
        [r(0, n - 1), r(n - 1, 0), ['lit', 1, 'Z', 2, 'Z']],           # refers to an absent chain
        [r(1, n - 1), r(n - 1, 1), r(0, n - 2), r(n - 2, 0)],
    ]
    return fams


def cases(tier):
    out = []
    for mol in MOLS:
        n = len(MOLS[mol]['res'])
        if tier == 'quick':
            fams = _families(mol)
        else:
            pairs = [['res', a, b] for a in range(n) for b in range(n) if a != b]
            fams = _families(mol) + [list(c) for k in (2, 3) for c in itertools.combinations(pairs, k)][::7 if n > 4 else 3]
        for fidx, fam in enumerate(fams):
            for sep in ((1, 2) if tier == 'quick' else (1, 2, 3)):
                keyopts = [(0, 1)] if (fidx + sep) % 2 else [(3, 4)]
                for key0, keystep in keyopts:
                    out.append({'fn': 'run_go', 'engine': 'sn', 'timeout': 600,
                                'part': dict(mol=mol, contacts=fam, sep=sep, key0=key0, keystep=keystep),
                                'label': 'go[%s contacts%s sep%d keys%d+%d]' % (mol, ''.join('(%s,%s)' % (c[1], c[2]) for c in fam), sep, key0, keystep),
                                'twin': fidx == 2})
    return out
