"""C01 - resolution transformation conserves atoms, residues and connectivity.

Real code executed symbolically (CrossHair): do_mapping (all of it), build_graph_mapping_collection,
Mapping.map / _graph_map (networkx GraphMatcher), apply_block_mapping, Molecule.merge_molecule,
Molecule.edges_between, Molecule.subgraph.  Toy force-field pair built with the real Block / Mapping API.

shape: residue kinds per position, node numbering, extra atoms, second overlapping mapping (partition);
inter-residue bonds incl. the non-adjacent one (symbolic booleans).  data (solver): the input residue number of
every residue (unbounded, pairwise distinct).
"""
import itertools

from engine.common import ok, RecLogger, concretize
from engine.chsym import b_and

PART = {}

META = {
    'engine': 'E1 CrossHair 0.0.110 + z3',
    'functions': ['vermouth.processors.do_mapping.do_mapping', 'build_graph_mapping_collection', 'apply_block_mapping',
                  'vermouth.map_parser.Mapping.map/_graph_map', 'vermouth.molecule.Molecule.merge_molecule',
                  'Molecule.edges_between', 'Molecule.subgraph'],
    'bounds': {
        'quick': 'chains of 2-3 residues, every combination of the residue kinds X (many-to-one), Y (atom shared between two '
                 'particles with unequal weights, two interactions on the same particle pair), Z (zero-weight atom + particle built '
                 'from no atom); every subset of inter-residue bonds incl. the non-adjacent pair; 3 node numberings (ascending, '
                 'residues in reverse key order, gapped); extra unmapped heavy atom / hydrogen; a second mapping overlapping '
                 'kind X; one input residue number per case is an unbounded integer distinct from the others (11, 3, 7, 5), rotating over the positions',
        'thorough': 'chains of 4 residues; every numbering x extra-atom combination for every kind sequence',
    },
    'stubs': ['do_mapping.LOGGER -> recorder of (level, type); format_atom_string is never reached with symbolic values'],
    'assumptions': ['input residue numbers pairwise distinct (documented precondition after MergeChains)',
                    'with an overlapping second mapping only the warning and the particle count are judged (placement order '
                    'between two mappings on the same atoms is unspecified)'],
    'outside': ['multi-residue mappings; modification mappings beyond a one-atom cap (order and constituents only)', 'the shipped mapping files', 'chains longer than 4 residues'],
}

_TOY = {}


def toy():
    if _TOY:
        return _TOY
    from vermouth.molecule import Block
    from vermouth.forcefield import ForceField
    from vermouth.map_parser import Mapping
    ff_a, ff_b = ForceField(name='aa'), ForceField(name='cg')

    def mkblock(ff, name, atoms, edges, inters=()):
        block = Block(force_field=ff)
        block.name = name
        block.nrexcl = 1
        for i, atom in enumerate(atoms):
            block.add_node(atom, atomname=atom, resname=name, resid=1, charge_group=i + 1, atype='T' + atom)
        block.add_edges_from(edges)
        for itype, atoms_, params in inters:
            block.add_interaction(itype, atoms_, list(params))
        return block
    ax = mkblock(ff_a, 'X', ['a', 'b'], [('a', 'b')])
    ay = mkblock(ff_a, 'Y', ['a', 'b', 'c'], [('a', 'b'), ('b', 'c')])
    az = mkblock(ff_a, 'Z', ['a', 'b'], [('a', 'b')])
    bx = mkblock(ff_b, 'X', ['P'], [])
    bx2 = mkblock(ff_b, 'X2', ['R'], [])
    by = mkblock(ff_b, 'Y', ['P', 'Q'], [('P', 'Q')], [('bonds', ('P', 'Q'), ('1', '0.3')), ('bonds', ('P', 'Q'), ('2', '0.4'))])
    bz = mkblock(ff_b, 'Z', ['P', 'V'], [('P', 'V')], [('constraints', ('P', 'V'), ('1', '0.2'))])
    ff_a.blocks = {'X': ax, 'Y': ay, 'Z': az}
    ff_b.blocks = {'X': bx, 'Y': by, 'Z': bz, 'X2': bx2}
    maps = {
        'X': Mapping(ax, bx, {'a': {'P': 1}, 'b': {'P': 1}}, {}, ff_from=ff_a, ff_to=ff_b, names=('X',)),
        'Y': Mapping(ay, by, {'a': {'P': 1}, 'b': {'P': 1, 'Q': 1}, 'c': {'Q': 2}}, {}, ff_from=ff_a, ff_to=ff_b, names=('Y',)),
        'Z': Mapping(az, bz, {'a': {'P': 1}, 'b': {'P': 0}}, {}, ff_from=ff_a, ff_to=ff_b, names=('Z',)),
    }
    overlap = dict(maps)
    overlap['X2'] = Mapping(ax, bx2, {'a': {'R': 1}, 'b': {'R': 1}}, {}, ff_from=ff_a, ff_to=ff_b, names=('X',))
    _TOY.update(ff_a=ff_a, ff_b=ff_b, maps={'aa': {'cg': maps}}, overlap={'aa': {'cg': overlap}},
                atoms={'X': ['a', 'b'], 'Y': ['a', 'b', 'c'], 'Z': ['a', 'b']},
                weights={'X': {'P': {'a': 1, 'b': 1}}, 'Y': {'P': {'a': 1, 'b': 1}, 'Q': {'b': 1, 'c': 2}},
                         'Z': {'P': {'a': 1, 'b': 0}, 'V': {'a': 0, 'b': 0}}},
                beads={'X': ['P'], 'Y': ['P', 'Q'], 'Z': ['P', 'V']}, spawned={'Z': {'V'}},
                bead_edges={'X': [], 'Y': [('P', 'Q')], 'Z': [('P', 'V')]},
                inters={'X': {}, 'Y': {'bonds': [(('P', 'Q'), ['1', '0.3']), (('P', 'Q'), ['2', '0.4'])]},
                        'Z': {'constraints': [(('P', 'V'), ['1', '0.2'])]}})
    return _TOY


def build(kinds, resids, bonds, layout, extra_heavy, extra_h):
    from vermouth.molecule import Molecule
    t = toy()
    mol = Molecule(force_field=t['ff_a'])
    n = len(kinds)
    sizes = [len(t['atoms'][k]) for k in kinds]
    # key of the first atom of each residue according to the numbering layout
    if layout == 'ascending':
        starts, key = [], 0
        for size in sizes:
            starts.append(key)
            key += size
    elif layout == 'reversed':        # residues in reverse key order
        starts, key = [0] * n, 0
        for ridx in reversed(range(n)):
            starts[ridx] = key
            key += sizes[ridx]
    else:                             # gapped
        starts, key = [], 5
        for size in sizes:
            starts.append(key)
            key += size + 7
    keys = []
    order = sorted(range(n), key=lambda r: starts[r]) if layout != 'reversed' else list(range(n))
    for ridx in (order if layout != 'reversed' else range(n)):
        pass
    for ridx in range(n):
        kind = kinds[ridx]
        res_keys = {}
        for off, atom in enumerate(t['atoms'][kind]):
            k = starts[ridx] + off
            mol.add_node(k, atomname=atom, resname=kind, resid=resids[ridx], chain='A', element='C')
            res_keys[atom] = k
        atoms = t['atoms'][kind]
        for a, b in zip(atoms, atoms[1:]):
            mol.add_edge(res_keys[a], res_keys[b])
        keys.append(res_keys)
    pairs = list(itertools.combinations(range(n), 2))
    for flag, (i, j) in zip(bonds, pairs):
        if flag:
            first = keys[i][t['atoms'][kinds[i]][-1]] if j == i + 1 else keys[i][t['atoms'][kinds[i]][0]]
            second = keys[j][t['atoms'][kinds[j]][0]] if j == i + 1 else keys[j][t['atoms'][kinds[j]][-1]]
            mol.add_edge(first, second)
    top = max(mol.nodes) + 1
    extras = []
    if extra_heavy:
        mol.add_node(top, atomname='E', resname='LIG', resid=900, chain='A', element='O')
        mol.add_edge(top, keys[0]['a'])
        extras.append(top)
        top += 1
    if extra_h:
        mol.add_node(top, atomname='HX', resname='LIG', resid=900, chain='A', element='H')
        mol.add_edge(top, keys[n - 1][t['atoms'][kinds[n - 1]][-1]])
        extras.append(top)
    return mol, keys, pairs


CONCRETE_RESIDS = [11, 3, 7, 5]


def distinct(r0: int, r1: int, r2: int, r3: int) -> bool:
    """One residue number is symbolic per case (PART['sym']); the others are pinned to distinct concrete values
    (three symbolic numbers at once multiply the paths of the residue grouping beyond reach)."""
    n = len(PART['kinds'])
    rs = [r0, r1, r2, r3]
    sym = PART.get('sym', 0)
    conds = []
    for idx in range(4):
        if idx >= n:
            if rs[idx] != 0:
                return False
        elif idx != sym:
            if rs[idx] != CONCRETE_RESIDS[idx]:
                return False
        else:
            conds += [rs[idx] != CONCRETE_RESIDS[j] for j in range(n) if j != idx]
    return b_and(*conds) if conds else True


def check_mapping(r0: int, r1: int, r2: int, r3: int) -> str:
    """
    pre: distinct(r0, r1, r2, r3)
    post: _ == ''
    """
    import vermouth.processors.do_mapping as dm
    t = toy()
    kinds = PART['kinds']
    n = len(kinds)
    resids = [r0, r1, r2, r3][:n]
    bonds = list(PART['bonds'])
    mol, keys, pairs = build(kinds, resids, bonds, PART['layout'], PART['extra_heavy'], PART['extra_h'])
    recorder = RecLogger()
    saved = dm.LOGGER
    dm.LOGGER = recorder
    try:
        out = dm.do_mapping(mol, t['overlap'] if PART.get('overlap') else t['maps'], t['ff_b'],
                            attribute_keep=('chain',), attribute_stash=('resid',))
    finally:
        dm.LOGGER = saved
    warnings = recorder.types(levels=('WARNING',))
    if (('unmapped-atom' in warnings) != bool(PART['extra_heavy'])):
        return 'unmapped-atom warning does not follow the presence of an unmapped non-hydrogen atom'
    if PART.get('overlap'):
        nx_res = sum(1 for k in kinds if k == 'X')
        if ('inconsistent-data' in warnings) != (nx_res > 0):
            return 'overlapping placements did not raise an inconsistent-data warning'
        want = sum(len(t['beads'][k]) for k in kinds) + nx_res
        if len(out) != want:
            return 'overlapping mappings: particle count is not one copy of every placed block'
        return ok()
    if 'inconsistent-data' in warnings:
        return 'inconsistent-data warning without overlapping placements'
    # ---- placements in input order (lowest atom key)
    order = sorted(range(n), key=lambda r: min(keys[r].values()))
    nodes = list(out.nodes)
    pos = 0
    particle = {}
    for rank, ridx in enumerate(order):
        kind = kinds[ridx]
        for bead in t['beads'][kind]:
            if pos >= len(nodes):
                return 'particles missing'
            attrs = out.nodes[nodes[pos]]
            if attrs.get('atomname') != bead or attrs.get('resname') != kind:
                return 'placements are not one copy of the target block each, in input order'
            if attrs.get('resid') != rank + 1:
                return 'residues are not renumbered consecutively'
            if attrs.get('_old_resid') != resids[ridx]:
                return 'input residue number not retained'
            want_w = {keys[ridx][atom]: w for atom, w in t['weights'][kind][bead].items()}
            if dict(attrs.get('mapping_weights', {})) != want_w:
                return 'particle does not record exactly the atoms and weights the mapping assigns'
            if set(attrs['graph'].nodes) != set(want_w):
                return 'constituent subgraph of a particle differs from the atoms the mapping assigns'
            particle[(ridx, bead)] = nodes[pos]
            pos += 1
    if pos != len(nodes):
        return 'more particles than the placements justify'
    # ---- edges
    expected = set()
    for ridx in range(n):
        for a, b in t['bead_edges'][kinds[ridx]]:
            expected.add(frozenset((particle[(ridx, a)], particle[(ridx, b)])))
    for flag, (i, j) in zip(bonds, pairs):
        if not flag:
            continue
        atom_i = t['atoms'][kinds[i]][-1] if j == i + 1 else t['atoms'][kinds[i]][0]
        atom_j = t['atoms'][kinds[j]][0] if j == i + 1 else t['atoms'][kinds[j]][-1]
        for bi in t['beads'][kinds[i]]:
            if bi in t['spawned'].get(kinds[i], ()) or atom_i not in t['weights'][kinds[i]][bi]:
                continue
            for bj in t['beads'][kinds[j]]:
                if bj in t['spawned'].get(kinds[j], ()) or atom_j not in t['weights'][kinds[j]][bj]:
                    continue
                expected.add(frozenset((particle[(i, bi)], particle[(j, bj)])))
    got = {frozenset(e) for e in out.edges}
    if got != expected:
        return 'particles of different placements are not connected exactly when constituent atoms are bonded'
    # ---- interactions: one copy per placement
    want_inter = {}
    for ridx in order:
        for itype, lst in t['inters'][kinds[ridx]].items():
            for beads, params in lst:
                want_inter.setdefault(itype, []).append((tuple(particle[(ridx, b)] for b in beads), list(params)))
    got_inter = {itype: [(tuple(i.atoms), list(i.parameters)) for i in lst] for itype, lst in out.interactions.items() if lst}
    if got_inter != want_inter:
        return 'interactions are not exactly one copy of every placed block'
    return ok()


_MOD = {}


def mod_toy():
    # rebuilt for every run so that runs are independent; re-use of one mapping collection is exercised by PART['reuse']
    _MOD.clear()
    from vermouth.molecule import Block, Link
    from vermouth.forcefield import ForceField
    from vermouth.map_parser import Mapping
    ff = ForceField(name='modff')
    cap = Link(force_field=ff, name='cap')
    cap.add_node('mA', atomname='mA', PTM_atom=True, modifications=[cap])
    maps = {}
    for name in 'AB':
        block = Block(force_field=ff, name=name)
        block.add_node(name, atomname=name, resname=name, resid=1)
        maps[name] = Mapping(block, block, mapping={name: {name: 1}}, references={}, ff_from=ff, ff_to=ff, names=(name,))
    maps[('cap',)] = Mapping(cap, cap, mapping={'mA': {'mA': 1}}, references={}, ff_from=ff, ff_to=ff, names=('cap',),
                             type='modification')
    _MOD.update(ff=ff, cap=cap, maps={ff.name: {ff.name: maps}})
    return _MOD


def _build_and_map(t, first_key, r):
    import vermouth.processors.do_mapping as dm
    from vermouth.molecule import Molecule
    order = PART['order']
    mol = Molecule(force_field=t['ff'])
    for offset, name in enumerate(order):
        attrs = {'atomname': name, 'resname': 'A' if name in ('mA', 'A') else 'B', 'resid': r if name in ('mA', 'A') else 50,
                 'element': 'C', 'chain': 'A'}
        if name == 'mA':
            attrs.update(PTM_atom=True, modifications=[t['cap']])
        if name == 'A':
            attrs.update(modifications=[t['cap']])
        mol.add_node(first_key + offset, **attrs)
    for offset in range(len(order) - 1):
        mol.add_edge(first_key + offset, first_key + offset + 1)
    saved = dm.LOGGER
    dm.LOGGER = RecLogger()
    try:
        return dm.do_mapping(mol, t['maps'], t['ff'], attribute_keep=('chain',), attribute_stash=('resid',))
    finally:
        dm.LOGGER = saved


def check_mod_mapping(first_key: int, r: int) -> str:
    """
    pre: 0 <= first_key <= 3
    pre: r != 50
    post: _ == ''
    """
    # a modification mapping (cap particle built from one PTM atom) next to block mappings: particles come out in input
    # order whatever the node numbering starts at, and wherever the PTM atom stands relative to its residue
    import vermouth.processors.do_mapping as dm
    from vermouth.molecule import Molecule
    t = mod_toy()
    first_key = concretize(first_key)          # node keys are hashed: one offset per path
    if PART.get('reuse'):
        # known finding C01-mod-mapping-reuse: map an identical molecule first with the same Mapping objects
        saved_part = dict(PART)
        PART['reuse'] = False
        _build_and_map(t, first_key, r)
        PART.update(saved_part)
    order = PART['order']                     # sequence of atom names in the input
    mol = Molecule(force_field=t['ff'])
    for offset, name in enumerate(order):
        attrs = {'atomname': name, 'resname': 'A' if name in ('mA', 'A') else 'B', 'resid': r if name in ('mA', 'A') else 50,
                 'element': 'C', 'chain': 'A'}
        if name == 'mA':
            attrs.update(PTM_atom=True, modifications=[t['cap']])
        if name == 'A':
            attrs.update(modifications=[t['cap']])
        mol.add_node(first_key + offset, **attrs)
    for offset in range(len(order) - 1):
        mol.add_edge(first_key + offset, first_key + offset + 1)
    recorder = RecLogger()
    saved = dm.LOGGER
    dm.LOGGER = recorder
    try:
        out = dm.do_mapping(mol, t['maps'], t['ff'], attribute_keep=('chain',), attribute_stash=('resid',))
    finally:
        dm.LOGGER = saved
    got = [(out.nodes[k]['atomname'], sorted(out.nodes[k]['mapping_weights'])) for k in sorted(out.nodes)]
    want = [(name, [first_key + offset]) for offset, name in enumerate(order)]
    if got != want:
        return 'particles of block and modification placements are not in input order with the atoms the mappings assign'
    if recorder.types(levels=('WARNING',)):
        return 'warning on a fully mapped molecule'
    return ok()


def warmup():
    global PART
    saved = PART
    toy()
    for layout in ('ascending', 'reversed', 'gapped'):
        PART = {'kinds': ['Y', 'X', 'Z'], 'layout': layout, 'extra_heavy': True, 'extra_h': True, 'overlap': False}
        PART['bonds'] = [True, True, True]
        res = check_mapping(5, 3, 7, 0)
        PART = {'kinds': ['X', 'Z'], 'layout': layout, 'extra_heavy': False, 'extra_h': False, 'overlap': True, 'bonds': [True]}
        check_mapping(5, 3, 0, 0)
    for order in (['mA', 'A', 'B'], ['A', 'mA', 'B'], ['B', 'A', 'mA']):
        PART = {'order': order}
        check_mod_mapping(0, 4)
    PART = saved


def selftest(seed):
    import random
    global PART
    rng = random.Random(seed)
    runs, failures = 0, []
    for _ in range(120):
        n = rng.randint(2, 4)
        PART = {'kinds': [rng.choice('XYZ') for _ in range(n)], 'layout': rng.choice(['ascending', 'reversed', 'gapped']),
                'extra_heavy': rng.random() < 0.4, 'extra_h': rng.random() < 0.4, 'overlap': rng.random() < 0.2}
        PART['sym'] = rng.randrange(n)
        resids = [(rng.choice([-4, 0, 1, 2, 100, 12]) if i == PART['sym'] else CONCRETE_RESIDS[i]) if i < n else 0 for i in range(4)]
        npairs = n * (n - 1) // 2
        bonds = [rng.random() < 0.5 for i in range(npairs)]
        PART['bonds'] = bonds
        res = check_mapping(*resids)
        runs += 1
        if res != ok():
            failures.append('check_mapping%r %r -> %s' % (tuple(resids + bonds), PART, res))
    for order in (['mA', 'A', 'B'], ['A', 'mA', 'B'], ['B', 'A', 'mA'], ['B', 'mA', 'A']):
        for fk in (0, 1, 3):
            PART = {'order': order}
            res = check_mod_mapping(fk, rng.choice([1, 7, 49]))
            runs += 1
            if res != ok():
                failures.append('check_mod_mapping(%d) %r -> %s' % (fk, order, res))
    return {'runs': runs, 'failures': failures[:3]}


def cases(tier):
    out = []
    layouts = ['ascending', 'reversed', 'gapped']
    extras = [(False, False), (True, False), (False, True), (True, True)]
    k = 0
    for n in ((2, 3) if tier == 'quick' else (2, 3, 4)):
        for kinds in itertools.product('XYZ', repeat=n):
            if n == 4 and k % 3:
                k += 1
                continue
            k += 1
            combos = [(layouts[k % 3], extras[k % 4])] if tier == 'quick' else \
                [(lay, ex) for lay in layouts for ex in (extras if n < 4 else [extras[k % 4]])]
            npairs = n * (n - 1) // 2
            bond_sets = list(itertools.product((False, True), repeat=npairs))
            if n == 4:
                bond_sets = bond_sets[k % 5::5]
            for layout, (eh, ehh) in combos:
                for bonds in bond_sets:
                    out.append({'fn': 'check_mapping',
                                'part': {'kinds': list(kinds), 'layout': layout, 'extra_heavy': eh, 'extra_h': ehh, 'overlap': False,
                                         'bonds': list(bonds), 'sym': k % n},
                                'label': 'map[%s %s eh%d h%d bonds%s sym%d]' % (''.join(kinds), layout, eh, ehh, ''.join('1' if b else '0' for b in bonds), k % n),
                                'timeout': 600, 'path_timeout': 60, 'twin': k % 9 == 0 and not any(bonds)})
    for order in (['mA', 'A', 'B'], ['A', 'mA', 'B'], ['B', 'A', 'mA'], ['B', 'mA', 'A']):
        for reuse in (False, True):
            out.append({'fn': 'check_mod_mapping', 'part': {'order': order, 'reuse': reuse},
                        'label': 'modification-mapping[%s reuse%d]' % (''.join(order), reuse), 'timeout': 600, 'path_timeout': 60,
                        'twin': order[0] == 'mA' and not reuse})
    for kinds in (['X', 'Y'], ['Z', 'X', 'X'], ['Y', 'Z']):
        out.append({'fn': 'check_mapping', 'part': {'kinds': kinds, 'layout': 'ascending', 'extra_heavy': False, 'extra_h': False,
                                                    'overlap': True, 'bonds': [True] * (len(kinds) * (len(kinds) - 1) // 2),
                                                    'sym': [i for i, kk in enumerate(kinds) if kk != 'X'][0]},
                    'label': 'map-overlap[%s]' % ''.join(kinds), 'timeout': 900, 'path_timeout': 60})
    return out
