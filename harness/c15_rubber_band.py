"""C15 - elastic-network bonds are exactly the pairs meeting every stated criterion.

Real code executed on proxy reals (engine E2): ApplyRubberBand.run_molecule -> apply_rubber_band end to end
(self_distance_matrix, compute_decay, compute_force_constants, build_connectivity_matrix incl. make_residue_graph,
build_pair_matrix, same_chain / make_same_region_criterion, bond emission).
"""
import itertools

from engine.common import ok, RecLogger

PART = {}

META = {
    'engine': 'E2 symnum (proxy execution over z3 reals, QF_NRA; exp as monotone fresh variables, sqrt exact)',
    'functions': ['vermouth.processors.apply_rubber_band.ApplyRubberBand.run_molecule', 'apply_rubber_band',
                  'self_distance_matrix', 'compute_decay', 'compute_force_constants', 'build_connectivity_matrix',
                  'build_pair_matrix', 'same_chain', 'make_same_region_criterion', 'vermouth.graph_utils.make_residue_graph'],
    'bounds': {
        'quick': 'molecules of 4-6 beads in 3-5 residues (linear, with side beads, branched, two chains, gap), <= 4 selected '
                 'beads on a line with real coordinates; separation 0..3, decay power 0/1/2, domain = molecule/chain/residue '
                 'regions (symbolic region bounds), 3 insertion orders; lower/upper bound, decay factor, base constant, minimum '
                 'force real-valued; translation + reversed/permuted atom order; NaN coordinate',
        'thorough': 'the quick-tier rotation of layout x separation x power x domain x order combinations, plus every combination for the linear 4-bead chain (incl. the 64-path separation-0 cases with decay power 1-2) and 5 selected beads at separation >= 2',
    },
    'stubs': ['apply_rubber_band.LOGGER -> recorder of (level, type)',
              'numpy on proxies: sqrt exact (y>=0, y*y=t), exp = fresh positive variable per argument with strict monotonicity '
              'and exp(0)=1 (over-approximation), round(5) = identity with the claim |length-d| <= 5e-6'],
    'assumptions': ['ideal real arithmetic; beads on a line (1-D coordinates keep the queries in cheap NRA); y = z = 0',
                    'lower_bound >= 0, upper_bound >= 0, decay factor >= 0, base constant > 0, minimum force >= 0'],
    'outside': ['general 3-D geometry in the end-to-end harness (3-D distance matrix kernel is checked separately for 2-3 points; 3 points with decay power 1 is not decided by z3 within the budget and is not claimed)',
                'floating-point rounding at the thresholds', 'more than 5 selected beads'],
}

# layouts: list of beads (residue index, chain, atomname); residue-level edges; selected = beads named in 'selected'
LAYOUTS = {
    'lin4': dict(beads=[(0, 'A', 'BB'), (1, 'A', 'BB'), (2, 'A', 'BB'), (3, 'A', 'BB')], redges=[(0, 1), (1, 2), (2, 3)]),
    'side5': dict(beads=[(0, 'A', 'BB'), (0, 'A', 'SC1'), (1, 'A', 'BB'), (2, 'A', 'BB'), (2, 'A', 'SC1'), (3, 'A', 'BB')],
                  redges=[(0, 1), (1, 2), (2, 3)]),
    'branch4': dict(beads=[(0, 'A', 'BB'), (1, 'A', 'BB'), (2, 'A', 'BB'), (3, 'A', 'BB')], redges=[(0, 1), (1, 2), (1, 3)]),
    'chains': dict(beads=[(0, 'A', 'BB'), (1, 'A', 'BB'), (2, 'B', 'BB'), (3, 'B', 'BB')], redges=[(0, 1), (2, 3), (1, 2)]),
    'gap': dict(beads=[(0, 'A', 'BB'), (1, 'A', 'BB'), (2, 'A', 'BB'), (3, 'A', 'BB')], redges=[(0, 1), (2, 3)]),
    'lin5': dict(beads=[(0, 'A', 'BB'), (1, 'A', 'BB'), (2, 'A', 'BB'), (3, 'B', 'BB'), (4, 'B', 'BB')],
                 redges=[(0, 1), (1, 2), (2, 3), (3, 4)]),
}
ORDERS = {'asc': None, 'desc': 'reverse', 'mix': 'interleave'}


def _install():
    import vermouth.processors.apply_rubber_band as arb
    from engine.symnum import NPShim
    return arb


def _vec(ctx, x):
    import numpy as np
    if ctx.symbolic:
        from engine.symnum import wrap, as_sym
        return wrap(np.array([as_sym(x), as_sym(0), as_sym(0)], dtype=object))
    return np.array([float(x), 0.0, 0.0])


def _graph_distance(n, redges):
    import networkx as nx
    g = nx.Graph()
    g.add_nodes_from(range(n))
    g.add_edges_from(redges)
    return dict(nx.all_pairs_shortest_path_length(g))


def _build(ctx, xs, order, nan_at=None):
    """Molecule with node keys = bead index (fixed) inserted in the given order."""
    from vermouth.molecule import Molecule
    from vermouth.forcefield import ForceField
    layout = LAYOUTS[PART['layout']]
    beads = layout['beads']
    ff = ForceField(name='c15')
    if PART.get('sep_from_ff'):
        ff.variables['elastic_network_res_min_dist'] = PART['sep']
    mol = Molecule(force_field=ff)
    mol.meta['moltype'] = 'mol'
    idxs = list(range(len(beads)))
    if order == 'reverse':
        idxs = idxs[::-1]
    elif order == 'interleave':
        idxs = idxs[1::2] + idxs[0::2]
    for i in idxs:
        res, chain, name = beads[i]
        import numpy as np
        if nan_at == i:
            pos = np.array([float('nan'), 0.0, 0.0])
        else:
            pos = _vec(ctx, xs[i])
        attrs = dict(atomname=name, resname='ALA', resid=res + 1, chain=chain, position=pos, sel=(i in PART['selected']))
        if PART.get('old_resid') == 'zero':
            attrs['_old_resid'] = res            # input numbered from 0, renumbered from 1
        elif PART.get('old_resid'):
            attrs['_old_resid'] = res + 11
        mol.add_node(i, **attrs)
    first = {}
    for i, (res, chain, name) in enumerate(beads):
        if res in first:
            mol.add_edge(first[res], i)
        else:
            first[res] = i
    for a, b in layout['redges']:
        mol.add_edge(first[a], first[b])
    return mol


def _run(ctx, mol, params, recorder):
    import vermouth.processors.apply_rubber_band as arb
    lo, up, a, base, minf = params
    domain = PART['domain']
    if domain == 'molecule':
        crit = arb.always_true
    elif domain == 'chain':
        crit = arb.same_chain
    else:
        crit = arb.make_same_region_criterion(PART['_regions'])
    saved = arb.LOGGER
    arb.LOGGER = recorder
    try:
        proc = arb.ApplyRubberBand(lower_bound=lo, upper_bound=up, decay_factor=a, decay_power=PART['power'],
                                   base_constant=base, minimum_force=minf,
                                   res_min_dist=None if PART.get('sep_from_ff') else PART['sep'],
                                   bond_type=6, selector=lambda attrs: attrs['sel'], domain_criterion=crit)
        proc.run_molecule(mol)
    finally:
        arb.LOGGER = saved
    return mol


def _params(ctx):
    lo = ctx.real('lower', lo=0)
    up = ctx.real('upper', lo=0)
    a = ctx.real('decay', lo=0)
    base = ctx.real('base', lo=1e-6)
    minf = ctx.real('minforce', lo=0)
    return lo, up, a, base, minf


def _same_domain(ctx, i, j, regions):
    beads = LAYOUTS[PART['layout']]['beads']
    domain = PART['domain']
    if domain == 'molecule':
        return True
    if domain == 'chain':
        return beads[i][1] == beads[j][1]
    offset = 0 if PART.get('old_resid') == 'zero' else (11 if PART.get('old_resid') else 1)
    ri = beads[i][0] + offset
    rj = beads[j][0] + offset
    conds = []
    for a, b in regions:
        lower = ctx.ite(a <= b, a, b)
        upper = ctx.ite(a <= b, b, a)
        conds.append(ctx.all([lower <= ri, upper >= ri, lower <= rj, upper >= rj]))
    return ctx.any(conds)


def _distance(ctx, xi, xj):
    """Euclidean distance of two beads at (x, 0, 0); sqrt is exact in the engine (y >= 0, y*y = t)."""
    zero = ctx.const(0)
    sq = ((xi - xj) ** 2 + (zero - zero) ** 2) + (zero - zero) ** 2
    return ctx.sqrt_of(sq)


def _expected_constant(ctx, d, lo, a, base):
    power = PART['power']
    # written in the same association order as the documented formula exp(-a * (d - lower)**p), so that the engine's
    # hash-consing gives the oracle and the code under test one variable per distinct exponential
    arg = (-a) * ((d - lo) ** power)
    e = ctx.exp_of(arg)
    raw = base * e
    return ctx.ite(raw > base, base, raw)


def run_network(ctx):
    layout = LAYOUTS[PART['layout']]
    beads = layout['beads']
    n = len(beads)
    selected = sorted(PART['selected'])
    xs = {i: ctx.real('x%d' % i) for i in range(n)}
    params = _params(ctx)
    lo, up, a, base, minf = params
    regions = None
    if PART['domain'] == 'regions':
        r1a, r1b = ctx.real('reg_a'), ctx.real('reg_b')
        regions = [(r1a, r1b), (ctx.const(13 if PART.get('old_resid') is True else 3), ctx.const(40))]
        PART['_regions'] = regions
    recorder = RecLogger()
    mol = _build(ctx, xs, ORDERS[PART['order']])
    _run(ctx, mol, params, recorder)
    order_pos = {key: pos for pos, key in enumerate(mol.nodes)}
    bonds = {}
    for inter in mol.interactions.get('bonds', []):
        key = frozenset(inter.atoms)
        if key in bonds:
            ctx.claim(False, 'a pair received more than one elastic bond')
        bonds[key] = inter
        ctx.claim(inter.meta.get('group') == 'Rubber band' and inter.parameters[0] == 6, 'bond not labelled as rubber band / wrong type')
    gdist = _graph_distance(1 + max(b[0] for b in beads), layout['redges'])
    for key in bonds:
        if not all(k in selected for k in key):
            ctx.claim(False, 'elastic bond on an atom that is not selected')
    for i, j in itertools.combinations(selected, 2):
        d = _distance(ctx, xs[i], xs[j])
        ri, rj = beads[i][0], beads[j][0]
        far_enough = gdist[ri].get(rj, 10 ** 6) > PART['sep']
        want_k = _expected_constant(ctx, d, lo, a, base)
        criteria = ctx.all([far_enough, _same_domain(ctx, i, j, regions), d <= up, want_k > minf])
        inter = bonds.get(frozenset((i, j)))
        if inter is None:
            ctx.claim(ctx.neg(criteria), 'no elastic bond although the pair (%d,%d) meets every criterion' % (i, j))
            continue
        ctx.claim(criteria, 'elastic bond on pair (%d,%d) that violates a criterion' % (i, j))
        first, second = inter.atoms
        ctx.claim(order_pos[first] < order_pos[second], 'bond atoms not in molecule order')
        length, const = inter.parameters[1], inter.parameters[2]
        if ctx.symbolic:
            ctx.claim(ctx.close(length, d), 'bond length is not the distance of pair (%d,%d)' % (i, j))
            ctx.claim(ctx.close(const, want_k), 'force constant of pair (%d,%d) is not base*exp(-a(d-lower)^p) capped at base' % (i, j))
        else:
            ctx.claim(abs(float(length) - float(d)) <= 5.000001e-6, 'bond length is not the distance (5 decimals) of pair (%d,%d)' % (i, j))
            ctx.claim(abs(float(const) - float(want_k)) <= 1e-9 * max(1.0, abs(float(want_k))),
                      'force constant of pair (%d,%d) is not base*exp(-a(d-lower)^p) capped at base' % (i, j))
    ctx.claim(len(recorder.records) == 0, 'warning logged for a molecule with defined coordinates')
    ctx.observe('bonds', sorted(tuple(sorted(k)) for k in bonds))


def run_invariance(ctx):
    """Same beads translated and inserted in another order: same bonds, same parameters."""
    layout = LAYOUTS[PART['layout']]
    n = len(layout['beads'])
    xs = {i: ctx.real('x%d' % i) for i in range(n)}
    t = ctx.real('shift')
    params = _params(ctx)
    if PART['domain'] == 'regions':
        PART['_regions'] = [(ctx.real('reg_a'), ctx.real('reg_b')), (ctx.const(3), ctx.const(40))]
    results = []
    for coords, order in ((xs, None), ({i: xs[i] + t for i in xs}, ORDERS[PART['order']])):
        mol = _build(ctx, coords, order)
        _run(ctx, mol, params, RecLogger())
        results.append({frozenset(i.atoms): i for i in mol.interactions.get('bonds', [])})
    first, second = results
    ctx.claim(set(first) == set(second), 'bond set changes under translation / atom order')
    for key in first:
        if key in second:
            if ctx.symbolic:
                ctx.claim(ctx.close(first[key].parameters[1], second[key].parameters[1]), 'bond length changes under translation / atom order')
                ctx.claim(ctx.close(first[key].parameters[2], second[key].parameters[2]), 'force constant changes under translation / atom order')
            else:
                ctx.claim(abs(float(first[key].parameters[1]) - float(second[key].parameters[1])) <= 1.1e-5, 'bond length changes under translation / atom order')
                ctx.claim(abs(float(first[key].parameters[2]) - float(second[key].parameters[2])) <= 1e-6 * max(1.0, abs(float(first[key].parameters[2]))),
                          'force constant changes under translation / atom order')
    ctx.observe('bonds', sorted(tuple(sorted(k)) for k in first))


def run_nan(ctx):
    layout = LAYOUTS[PART['layout']]
    n = len(layout['beads'])
    xs = {i: ctx.real('x%d' % i) for i in range(n)}
    params = _params(ctx)
    recorder = RecLogger()
    mol = _build(ctx, xs, None, nan_at=PART['nan_at'])
    _run(ctx, mol, params, recorder)
    ctx.claim(len(mol.interactions.get('bonds', [])) == 0, 'elastic network built although a selected atom has NaN coordinates')
    ctx.claim(recorder.types(levels=('WARNING',)) == ['unmapped-atom'], 'no (single) warning for NaN coordinates')


def run_distance_matrix(ctx):
    """3-D kernel: self_distance_matrix and compute_force_constants against the documented formula."""
    import numpy as np
    import vermouth.processors.apply_rubber_band as arb
    n = PART['n']
    pts = [[ctx.real('q%d_%d' % (i, d)) for d in range(3)] for i in range(n)]
    lo, up, a, base, minf = _params(ctx)
    if ctx.symbolic:
        from engine.symnum import wrap, as_sym
        coords = wrap(np.array([[as_sym(v) for v in row] for row in pts], dtype=object))
    else:
        coords = np.array(pts, dtype=float)
    dm = arb.self_distance_matrix(coords)
    consts = arb.compute_force_constants(dm, lo, up, a, PART['power'], base, minf)
    for i in range(n):
        for j in range(n):
            sq = sum(((pts[i][d] - pts[j][d]) ** 2 for d in range(3)), ctx.const(0))
            ctx.claim(ctx.all([dm[i, j] >= 0, ctx.close(dm[i, j] * dm[i, j], sq)]), 'distance matrix entry is not the Euclidean distance')
            if i == j:
                ctx.claim(ctx.close(consts[i, j], 0), 'diagonal force constant not zero')
                continue
            d = dm[i, j]
            want = _expected_constant(ctx, d, lo, a, base)
            # only what bond emission reads matters for the property: an entry counts iff it exceeds the minimum force
            keep = ctx.all([want > minf, d <= up])
            ctx.claim(ctx.iff(consts[i, j] > minf, keep), 'force constant matrix keeps/drops a pair against the criteria')
            if ctx.symbolic:
                ctx.claim(ctx.implies(keep, ctx.close(consts[i, j], want)), 'kept force constant differs from the documented formula')
            elif keep:
                ctx.claim(abs(float(consts[i, j]) - float(want)) <= 1e-9 * max(1.0, abs(float(want))), 'kept force constant differs from the documented formula')


def _values_for(fn, rng):
    from engine.symnum import ConcreteCtx

    class Sampler(ConcreteCtx):
        def real(self, name, lo=None, hi=None):
            if name not in self.values:
                if name.startswith('x') or name.startswith('q'):
                    base = round(rng.uniform(0, 2.0), 2)
                elif name == 'upper':
                    base = rng.choice([0.5, 0.9, 1.5])
                elif name == 'lower':
                    base = rng.choice([0.0, 0.3, 0.5])
                elif name == 'decay':
                    base = rng.choice([0.0, 1.0, 6.0])
                elif name == 'base':
                    base = rng.choice([500.0, 700.0])
                elif name == 'minforce':
                    base = rng.choice([0.0, 100.0, 420.0])
                elif name.startswith('reg'):
                    base = float(rng.randint(0, 5))
                else:
                    base = round(rng.uniform(-2, 2), 2)
                if lo is not None and base < lo:
                    base = lo
                self.values[name] = base
            return float(self.values[name])
    ctx = Sampler({})
    try:
        fn(ctx)
    except Exception:
        pass
    return ctx.values


def selftest(seed):
    import random
    from engine.symnum import run_concrete, differential
    global PART
    rng = random.Random(seed)
    runs, failures = 0, []
    todo = [c for c in cases('quick') if c['fn'] in ('run_network', 'run_invariance', 'run_distance_matrix')][::9]
    for case in todo:
        PART = dict(case['part'])
        fn = globals()[case['fn']]
        values = _values_for(fn, rng)
        fails, _ = run_concrete(fn, values)
        runs += 1
        if fails:
            failures.append('%s native %r: %s' % (case['label'], values, fails[:1]))
        if case['fn'] == 'run_network' and PART['power'] == 0 and PART['domain'] != 'regions':
            diff = differential(fn, values)
            runs += 1
            if diff not in ('', 'skipped'):
                failures.append('%s differential: %s' % (case['label'], diff))
    return {'runs': runs, 'failures': failures[:3]}


def warmup():
    pass


def cases(tier):
    out = []
    sel_sets = {
        'lin4': [[0, 1, 2, 3], [0, 2, 3]],
        'side5': [[0, 2, 3, 5], [0, 1, 3, 4], [1, 4, 5]],
        'branch4': [[0, 1, 2, 3]],
        'chains': [[0, 1, 2, 3]],
        'gap': [[0, 1, 2, 3]],
        'lin5': [[0, 1, 2, 3, 4]],
    }
    k = 0
    for layout in LAYOUTS:
        if layout == 'lin5' and tier == 'quick':
            continue
        for selected in sel_sets[layout]:
            for sep in (0, 1, 2, 3):
                for power in (0, 1, 2):
                    for domain in ('molecule', 'chain', 'regions'):
                        for order in ORDERS:
                            k += 1
                            # quick: a third of the combinations (rotating so that every value of every parameter and
                            # every pair of values occurs); thorough: all
                            if tier == 'quick' and (k + sep + power) % 4 != 0:
                                continue
                            gd = _graph_distance(1 + max(b[0] for b in LAYOUTS[layout]['beads']), LAYOUTS[layout]['redges'])
                            beads = LAYOUTS[layout]['beads']
                            allowed = sum(1 for i, j in itertools.combinations(selected, 2)
                                          if gd[beads[i][0]].get(beads[j][0], 10 ** 6) > sep)
                            if allowed >= 6 and power >= 1 and (tier == 'quick' or layout != 'lin4' or order != 'asc'):
                                continue        # 64 paths of heavier NRA queries (100-300 s each): thorough tier, lin4/asc only
                            if layout == 'lin5' and sep < 2:
                                continue        # 5 selected beads with <= 1 separation: up to 1024 paths
                            if tier == 'thorough' and (k + sep + power) % 4 != 0 and layout != 'lin4':
                                continue        # other layouts: the quick-tier rotation (the untrimmed tier ran past 28 min)
                            part = dict(layout=layout, selected=selected, sep=sep, power=power, domain=domain, order=order,
                                        sep_from_ff=(k % 5 == 0),
                                        old_resid=(domain == 'regions' and [False, True, 'zero'][k % 3]))
                            out.append({'fn': 'run_network', 'engine': 'sn', 'part': part, 'timeout': 600,
                                        'label': 'network[%s sel%s sep%d p%d %s %s]' % (layout, ''.join(map(str, selected)), sep, power, domain, order),
                                        'twin': k % 40 == 0})
    for layout in ('lin4', 'side5', 'chains'):
        for power in (0, 2):
            for order in ('desc', 'mix'):
                for domain in ('molecule', 'chain'):
                    part = dict(layout=layout, selected=sel_sets[layout][0], sep=1, power=power, domain=domain, order=order)
                    out.append({'fn': 'run_invariance', 'engine': 'sn', 'part': part, 'timeout': 900,
                                'label': 'invariance[%s p%d %s %s]' % (layout, power, domain, order), 'twin': power == 0})
    for layout in ('lin4', 'side5'):
        for nan_at in sel_sets[layout][0][:2]:
            part = dict(layout=layout, selected=sel_sets[layout][0], sep=1, power=0, domain='molecule', order='asc', nan_at=nan_at)
            out.append({'fn': 'run_nan', 'engine': 'sn', 'part': part, 'timeout': 120, 'label': 'nan[%s at%d]' % (layout, nan_at)})
    for n in (2, 3):
        for power in (0, 1, 2):
            if n == 3 and (power == 1 or (power == 2 and tier == 'quick')):
                continue        # 3-D, 3 points: power 2 takes ~170 s, power 1 is not decided by z3 within the query budget
            out.append({'fn': 'run_distance_matrix', 'engine': 'sn', 'part': dict(n=n, power=power), 'timeout': 900,
                        'label': 'distance-matrix[n%d p%d]' % (n, power)})
    return out
