"""C09 - a particle sits at the weighted mean of the atoms it represents.

Real code executed on proxy reals (engine E2): do_average_bead, DoAverageBead.run_molecule (numpy np.array /
np.average / sum / abs run on z3-real proxies).
"""
import itertools

from engine.common import ok

PART = {}

META = {
    'engine': 'E2 symnum (proxy execution over z3 reals, QF_NRA)',
    'functions': ['vermouth.processors.average_beads.do_average_bead', 'DoAverageBead.run_molecule'],
    'bounds': {
        'quick': 'particles of <= 3 constituent atoms in 3-D, every subset of atoms without coordinates, atom shared by two '
                 'particles, mapping weight missing (default 1), centre weight from force field / processor / off, one '
                 'processor instance over two molecules with different force fields; all coordinates, weights, masses '
                 'real-valued (unbounded); rigid motion = translation + symbolic rotation about z (c^2+s^2=1) + axis '
                 'permutation/reflection',
        'thorough': '<= 4 constituent atoms, general affine map',
    },
    'stubs': ['average_beads.np -> NPShim (np.array keeps proxies instead of calling float())',
              'np.average on proxies = sum(w*x)/sum(w) with ZeroDivisionError when the weights sum to zero (numpy contract)'],
    'assumptions': ['ideal real arithmetic (IEEE rounding outside; replays compare with relative tolerance 1e-9)',
                    'weights are 0 or >= 1e-3 and centre weights >= 1e-3: the code declares the mean undefined below '
                    '|sum w| < 1e-7, read as "zero"'],
    'outside': ['more than 4 constituents per particle', 'floating-point cancellation'],
}

DIM = 3


def _install():
    import vermouth.processors.average_beads as ab
    from engine.symnum import NPShim, Ctx
    if not isinstance(ab.np, NPShim):
        ab.np = NPShim()
    return ab


def _uninstall():
    import numpy
    import vermouth.processors.average_beads as ab
    ab.np = numpy


def _vec(ctx, values):
    import numpy as np
    if ctx.symbolic:
        from engine.symnum import wrap, as_sym
        return wrap(np.array([as_sym(v) for v in values], dtype=object))
    return np.array([float(v) for v in values], dtype=float)


def _isnan_array(pos):
    import numpy as np
    try:
        arr = np.asarray(pos, dtype=float)
    except (TypeError, ValueError):
        return False
    return bool(np.all(np.isnan(arr)))


def _weights_domain(ctx, w):
    ctx.assume(ctx.any([w == 0, w >= ctx.const(1e-3)]))


def run_mean(ctx):
    """One molecule; particle 0 built from atoms 0..k-1, optional particle 1 sharing atom 0."""
    import networkx as nx
    from vermouth.molecule import Molecule
    from vermouth.forcefield import ForceField
    if ctx.symbolic:
        ab = _install()
    else:
        _uninstall()
        import vermouth.processors.average_beads as ab
    k = PART['k']
    has_pos = PART['has_pos']
    mode = PART['weight_mode']       # 'none' | 'ff' | 'processor' | 'off'
    missing_w = PART.get('missing_w', -1)
    pos_none = PART.get('pos_none', False)
    p = [[ctx.real('p%d_%d' % (i, d)) for d in range(DIM)] for i in range(k)]
    w = [ctx.real('w%d' % i, lo=0) for i in range(k)]
    m = [ctx.real('m%d' % i, lo=1e-3) for i in range(k)]
    for wi in w:
        _weights_domain(ctx, wi)
    ff = ForceField(name='c09')
    if mode == 'ff':
        ff.variables['center_weight'] = 'mass'
    elif mode == 'off':
        ff.variables['center_weight'] = 'mass'       # configured in the force field but switched off on the processor
    atoms = nx.Graph()
    for i in range(k):
        attrs = {'mass': m[i], 'atomname': 'A%d' % i}
        if has_pos[i]:
            attrs['position'] = _vec(ctx, p[i])
        elif pos_none:
            attrs['position'] = None
        atoms.add_node(10 + i, **attrs)
    mol = Molecule(force_field=ff)
    weights0 = {10 + i: w[i] for i in range(k) if i != missing_w}
    mol.add_node(0, graph=atoms, mapping_weights=weights0, atomname='P')
    shared = PART.get('shared', False)
    if shared:
        w2 = ctx.real('w_shared', lo=1e-3)
        sub = atoms.subgraph([10, 10 + k - 1])
        mol.add_node(1, graph=sub, mapping_weights={10: w2, 10 + k - 1: w2}, atomname='Q')
    weight_arg = {'none': None, 'ff': None, 'processor': 'mass', 'off': False}[mode]
    proc = ab.DoAverageBead(weight=weight_arg)
    proc.run_molecule(mol)
    use_mass = mode in ('ff', 'processor')
    eff = []
    for i in range(k):
        wi = ctx.const(1) if i == missing_w else w[i]
        eff.append(wi * m[i] if use_mass else wi)
    _claims(ctx, mol.nodes[0].get('position'), [i for i in range(k) if has_pos[i]], eff, p, 'particle')
    if shared:
        idx = sorted({0, k - 1})
        eff2 = {i: (w2 * m[i] if use_mass else w2) for i in idx}
        _claims(ctx, mol.nodes[1].get('position'), [i for i in idx if has_pos[i]],
                [eff2.get(i, 0) for i in range(k)], p, 'second particle sharing an atom')
    ctx.observe('nan', _isnan_array(mol.nodes[0].get('position')))


def _claims(ctx, pos, positioned, eff, p, what):
    total = sum((eff[i] for i in positioned), ctx.const(0))
    undefined = _isnan_array(pos)
    if not positioned:
        ctx.claim(undefined, '%s without any positioned constituent must be undefined (NaN)' % what)
        return
    if undefined:
        ctx.claim(total == 0, '%s: position undefined (NaN) although the positioned weights do not sum to zero' % what)
        return
    ctx.claim(ctx.neg(total == 0), '%s: position defined although the positioned weights sum to zero' % what)
    if pos is None or len(pos) != DIM:
        ctx.claim(False, '%s: position missing or of wrong dimension' % what)
        return
    for d in range(DIM):
        mean_num = sum((eff[i] * p[i][d] for i in positioned), ctx.const(0))
        ctx.claim(ctx.close(pos[d] * total, mean_num),
                  '%s: coordinate %d is not the weighted mean of the positioned constituents' % (what, d))
        lo = p[positioned[0]][d]
        hi = p[positioned[0]][d]
        for i in positioned[1:]:
            lo = ctx.ite(p[i][d] < lo, p[i][d], lo)
            hi = ctx.ite(p[i][d] > hi, p[i][d], hi)
        slack = 0 if ctx.symbolic else 1e-9 * (1 + abs(float(lo)) + abs(float(hi)))
        ctx.claim(ctx.all([pos[d] >= lo - slack, pos[d] <= hi + slack]), '%s: coordinate %d outside the bounding box' % (what, d))


def run_motion(ctx):
    """Equivariance: moving every atom by a rigid motion moves the particle by the same motion."""
    import networkx as nx
    from vermouth.molecule import Molecule
    from vermouth.forcefield import ForceField
    if ctx.symbolic:
        ab = _install()
    else:
        _uninstall()
        import vermouth.processors.average_beads as ab
    k = PART['k']
    has_pos = PART['has_pos']
    kind = PART['motion']
    p = [[ctx.real('p%d_%d' % (i, d)) for d in range(DIM)] for i in range(k)]
    w = [ctx.real('w%d' % i, lo=1e-3) for i in range(k)]
    t = [ctx.real('t%d' % d) for d in range(DIM)]
    if kind == 'rotz':
        c, s = ctx.real('cos'), ctx.real('sin')
        ctx.assume(ctx.close(c * c + s * s, 1) if ctx.symbolic else abs(c * c + s * s - 1) < 1e-9)
        mat = [[c, -s, 0], [s, c, 0], [0, 0, 1]]
    elif kind == 'affine':
        mat = [[ctx.real('a%d%d' % (r, q)) for q in range(DIM)] for r in range(DIM)]
    else:
        perm, signs = PART['perm'], PART['signs']
        mat = [[(signs[r] if perm[r] == q else 0) for q in range(DIM)] for r in range(DIM)]

    def moved(v):
        return [sum((mat[r][q] * v[q] for q in range(DIM)), t[r]) for r in range(DIM)]

    results = []
    for coords in (p, [moved(v) for v in p]):
        atoms = nx.Graph()
        for i in range(k):
            attrs = {'atomname': 'A%d' % i}
            if has_pos[i]:
                attrs['position'] = _vec(ctx, coords[i])
            atoms.add_node(10 + i, **attrs)
        mol = Molecule(force_field=ForceField(name='c09m'))
        mol.add_node(0, graph=atoms, mapping_weights={10 + i: w[i] for i in range(k)})
        ab.DoAverageBead().run_molecule(mol)
        results.append(mol.nodes[0]['position'])
    before, after = results
    want = moved(list(before))
    for d in range(DIM):
        ctx.claim(ctx.close(after[d], want[d]), 'particle does not follow the rigid motion of its atoms (coordinate %d)' % d)


def run_two_molecules(ctx):
    """One processor instance over two molecules whose force fields configure the centre weight differently."""
    import networkx as nx
    from vermouth.molecule import Molecule
    from vermouth.forcefield import ForceField
    if ctx.symbolic:
        ab = _install()
    else:
        _uninstall()
        import vermouth.processors.average_beads as ab
    modes = PART['modes']          # e.g. ['none', 'mass']
    proc = ab.DoAverageBead()
    for idx, mode in enumerate(modes):
        p = [[ctx.real('m%d_p%d_%d' % (idx, i, d)) for d in range(DIM)] for i in range(2)]
        w = [ctx.real('m%d_w%d' % (idx, i), lo=1e-3) for i in range(2)]
        mass = [ctx.real('m%d_mass%d' % (idx, i), lo=1e-3) for i in range(2)]
        alt = [ctx.real('m%d_alt%d' % (idx, i), lo=1e-3) for i in range(2)]
        ff = ForceField(name='ff%d' % idx)
        if mode != 'none':
            ff.variables['center_weight'] = mode
        atoms = nx.Graph()
        for i in range(2):
            atoms.add_node(10 + i, position=_vec(ctx, p[i]), mass=mass[i], alt=alt[i])
        mol = Molecule(force_field=ff)
        mol.add_node(0, graph=atoms, mapping_weights={10: w[0], 11: w[1]})
        proc.run_molecule(mol)
        centre = {'none': [1, 1], 'mass': mass, 'alt': alt}[mode]
        eff = [w[i] * centre[i] for i in range(2)]
        _claims(ctx, mol.nodes[0].get('position'), [0, 1], eff, p, 'molecule %d (centre weight %s)' % (idx, mode))


def _random_values(rng, names_fn):
    return names_fn(rng)


def _values_for(fn, rng):
    """Random concrete valuation for the variables a harness function declares (found by a dry run)."""
    import random

    class Probe:
        symbolic = False

    values = {}

    class Recorder(dict):
        pass
    from engine.symnum import ConcreteCtx

    class Sampler(ConcreteCtx):
        def real(self, name, lo=None, hi=None):
            if name not in self.values:
                base = rng.choice([0.0, 1.0, rng.uniform(-3, 3), rng.uniform(0, 2)])
                if name in ('cos', 'sin'):
                    # exactly representable rotations only: the pinned symbolic run needs c*c + s*s == 1 exactly
                    pair = self.values.setdefault('_ang', rng.choice([(1.0, 0.0), (0.0, 1.0), (-1.0, 0.0), (0.0, -1.0)]))
                    base = pair[0] if name == 'cos' else pair[1]
                if lo is not None and base < lo:
                    base = lo + abs(base)
                self.values[name] = base
            return float(self.values[name])
    ctx = Sampler({})
    try:
        fn(ctx)
    except Exception:
        pass
    ctx.values.pop('_ang', None)
    return ctx.values


def selftest(seed):
    import random
    from engine.symnum import run_concrete, differential
    global PART
    rng = random.Random(seed)
    runs, failures = 0, []
    for case in cases('quick')[::7]:
        PART = case['part']
        fn = globals()[case['fn']]
        for _ in range(2):
            values = _values_for(fn, rng)
            fails, _ = run_concrete(fn, values)
            runs += 1
            if fails:
                failures.append('%s native: %s' % (case['label'], fails[:1]))
            diff = differential(fn, values)
            runs += 1
            if diff not in ('', 'skipped'):
                failures.append('%s differential: %s' % (case['label'], diff))
    _uninstall()
    return {'runs': runs, 'failures': failures[:3]}


def warmup():
    pass


def cases(tier):
    out = []
    kmax = 3 if tier == 'quick' else 4
    for k in range(1, kmax + 1):
        for has_pos in itertools.product((True, False), repeat=k):
            for mode in ('none', 'ff', 'processor', 'off'):
                variants = [dict(missing_w=-1, pos_none=False, shared=False)]
                if mode in ('none', 'ff'):
                    variants.append(dict(missing_w=k - 1, pos_none=True, shared=k >= 2))
                for var in variants:
                    part = dict(k=k, has_pos=list(has_pos), weight_mode=mode, **var)
                    out.append({'fn': 'run_mean', 'engine': 'sn', 'part': part, 'timeout': 300,
                                'label': 'mean[k%d pos%s %s mw%d sh%d]' % (k, ''.join('1' if b else '0' for b in has_pos), mode,
                                                                           var['missing_w'], var['shared']),
                                'twin': all(has_pos) and mode == 'ff'})
    motions = [('rotz', None, None)]
    for perm in itertools.permutations(range(3)):
        for signs in itertools.product((1, -1), repeat=3):
            if tier == 'thorough' or (sum(signs) in (3, -1) and perm in ((0, 1, 2), (1, 2, 0), (1, 0, 2))):
                motions.append(('perm', list(perm), list(signs)))
    if tier == 'thorough':
        motions.append(('affine', None, None))
    for k in (2, 3) if tier == 'quick' else (2, 3, 4):
        for kind, perm, signs in motions:
            for has_pos in ([True] * k, [True] * (k - 1) + [False]):
                out.append({'fn': 'run_motion', 'engine': 'sn', 'timeout': 600,
                            'part': dict(k=k, has_pos=has_pos, motion=kind, perm=perm, signs=signs),
                            'label': 'motion[k%d %s %s %s pos%d]' % (k, kind, perm, signs, sum(has_pos)),
                            'twin': kind == 'rotz'})
    for modes in itertools.permutations(['none', 'mass', 'alt'], 2):
        out.append({'fn': 'run_two_molecules', 'engine': 'sn', 'part': {'modes': list(modes)}, 'timeout': 300,
                    'label': 'two-molecules[%s,%s]' % modes})
    return out
