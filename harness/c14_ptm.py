"""C14 - every unrecognised atom is explained by a known modification or reported.

Real code executed (CrossHair explores the family, each member runs natively): CanonicalizeModifications.run_molecule ->
fix_ptm, find_ptm_atoms, allowed_ptms, identify_ptms, _cover_graph, ptm_node_matcher.

The code reads elements and names of the unexplained atoms only through equality and formats them into its log
message (a C boundary), so there is no arithmetic or ordering for the solver to reason about: the engine explores
the finite family of (site pattern x element x name) assignments through symbolic selectors, one member per path.
"""
import itertools

from engine.common import ok, RecLogger, no_tracing, concretize

PART = {}

META = {
    'engine': 'E1 CrossHair 0.0.110 + z3 (selector-driven exploration; members run natively)',
    'technique': 'bounded exploration of a finite input family driven by the symbolic engine (CrossHair/z3 enumerates the selector '
                 'values, one member per path, each run natively on the real code); no symbolic data: the code reads names/elements '
                 'only through equality',
    'level_text': 'Exhaustive exploration, by the symbolic engine, of a stated finite family of modified two-residue molecules; weaker '
                  'than the other checks because nothing is decided for an unbounded domain - stated as such.',
    'functions': ['vermouth.processors.canonicalize_modifications.CanonicalizeModifications.run_molecule', 'fix_ptm', 'find_ptm_atoms',
                  'allowed_ptms', 'identify_ptms', '_cover_graph', 'ptm_node_matcher'],
    'bounds': {
        'quick': 'two-residue backbone N-CA-C / N-CA-C; unexplained atoms at up to 4 sites (on CA of residue 1, chained to that atom, '
                 'on CA of residue 2, bridging C(1) and N(2)) in every combination; element of every unexplained atom in {O, H, S, P, X} (symbolic selector), '
                 'names Q with one atom named like an anchor (CA / N) in turn; 4 toy modifications: OX (one O on CA), OH (O-H on CA; OX is a sub-pattern), SX (same shape, '
                 'sulfur, with attribute replacements on anchor and added atom), BR (spans two residues)',
        'thorough': 'the same family with a second chained atom on residue 2',
    },
    'stubs': ['canonicalize_modifications.LOGGER -> recorder of (level, type)'],
    'assumptions': ['elements/names enter the code only through equality tests: the family of assignments is explored one member per '
                    'path (declared enumeration); residue templates (RepairGraph) already flagged the atoms'],
    'outside': ['the shipped modification tables', 'modifications requested on the command line (modifications attribute preset)'],
}

ELEMENTS = ['O', 'H', 'S', 'P', 'X']
NAMES = ['Q', 'CA', 'N']
_FF = {}


def force_field():
    if not _FF:
        from vermouth.forcefield import ForceField
        from vermouth.molecule import Link
        ff = ForceField(name='c14')

        def mod(name, nodes, edges):
            m = Link(force_field=ff, name=name)
            for key, attrs in nodes:
                m.add_node(key, **attrs)
            m.add_edges_from(edges)
            ff.modifications[name] = m
        mod('OX', [('CA', dict(atomname='CA', PTM_atom=False)), ('O1', dict(atomname='OX1', PTM_atom=True, element='O'))], [('CA', 'O1')])
        mod('OH', [('CA', dict(atomname='CA', PTM_atom=False)), ('O1', dict(atomname='OH1', PTM_atom=True, element='O')),
                   ('H1', dict(atomname='HO1', PTM_atom=True, element='H'))], [('CA', 'O1'), ('O1', 'H1')])
        mod('SX', [('CA', dict(atomname='CA', PTM_atom=False, replace={'tag': 'anchored'})),
                   ('S1', dict(atomname='SX1', PTM_atom=True, element='S', replace={'charge': -1}))], [('CA', 'S1')])
        mod('BR', [('C', dict(atomname='C', PTM_atom=False)), ('N', dict(atomname='N', PTM_atom=False)),
                   ('P1', dict(atomname='PB1', PTM_atom=True, element='P'))], [('C', 'P1'), ('N', 'P1'), ('C', 'N')])
        _FF['ff'] = ff
    return _FF['ff']


SITES = ['a1', 'a2', 'c1', 'd1', 'c2', 'b1', 'b2']      # a2 is bonded to a1, c2 to c1, b2 to b1; b1 also sits on CA of residue 1


def build(present, elements, names):
    from vermouth.molecule import Molecule
    ff = force_field()
    mol = Molecule(force_field=ff)
    keys = {}
    key = 0
    for resid in (1, 2):
        for atom, element in (('N', 'N'), ('CA', 'C'), ('C', 'C')):
            mol.add_node(key, atomname=atom, element=element, resname='ALA', resid=resid, chain='A', atomid=key + 1, charge=0)
            keys[(resid, atom)] = key
            key += 1
        mol.add_edge(keys[(resid, 'N')], keys[(resid, 'CA')])
        mol.add_edge(keys[(resid, 'CA')], keys[(resid, 'C')])
    mol.add_edge(keys[(1, 'C')], keys[(2, 'N')])
    attach = {'a1': [(1, 'CA')], 'a2': ['a1'], 'c1': [(2, 'CA')], 'c2': ['c1'], 'd1': [(1, 'C'), (2, 'N')], 'b1': [(1, 'CA')], 'b2': ['b1']}
    resid_of = {'a1': 1, 'a2': 1, 'c1': 2, 'c2': 2, 'd1': 1, 'b1': 1, 'b2': 1}
    for site in SITES:
        if site not in present:
            continue
        mol.add_node(key, atomname=names[site], element=elements[site], resname='ALA', resid=resid_of[site], chain='A',
                     atomid=key + 1, PTM_atom=True, charge=0)
        keys[site] = key
        key += 1
    for site in SITES:
        if site in present:
            for target in attach[site]:
                if target in keys:
                    mol.add_edge(keys[site], keys[target])
    return mol, keys


def expected(present, elements):
    """Independent statement of the outcome per group of connected unexplained atoms.
    Returns {site: ('kept', modification, canonical name) | ('removed',)}, warnings, {resid: [modification names]}."""
    out = {}
    warnings = 0
    labels = {1: [], 2: []}
    groups = []
    for head, tail, resid in (('a1', 'a2', 1), ('c1', 'c2', 2), ('b1', 'b2', 1)):
        if head in present:
            groups.append(([head] + ([tail] if tail in present else []), (resid,)))
    if 'd1' in present:
        groups.append((['d1'], (1, 2)))
    # groups anchored on the same residues are dealt with together: either every one of them is explained, or all their
    # atoms are removed with one warning
    by_key = {}
    for atoms, resids in groups:
        by_key.setdefault(resids, []).append(atoms)
    for resids, members in by_key.items():
        verdicts = []
        for atoms in members:
            els = [elements[a] for a in atoms]
            verdict = None
            if len(atoms) == 1 and atoms[0] in ('a1', 'c1', 'b1') and els == ['O']:
                verdict = ('OX', ['OX1'])
            elif len(atoms) == 1 and atoms[0] in ('a1', 'c1', 'b1') and els == ['S']:
                verdict = ('SX', ['SX1'])
            elif len(atoms) == 2 and els == ['O', 'H']:
                verdict = ('OH', ['OH1', 'HO1'])
            elif atoms == ['d1'] and els == ['P']:
                verdict = ('BR', ['PB1'])
            verdicts.append(verdict)
        if any(v is None for v in verdicts):
            warnings += 1
            for atoms in members:
                for a in atoms:
                    out[a] = ('removed',)
        else:
            for atoms, verdict in zip(members, verdicts):
                for a, cname in zip(atoms, verdict[1]):
                    out[a] = ('kept', verdict[0], cname)
                for resid in resids:
                    labels[resid].append(verdict[0])
    return out, warnings, labels


def code_ok(code: int) -> bool:
    return 0 <= code < len(ELEMENTS) ** len(PART['present'])


def check_ptm(code: int) -> str:
    """
    pre: code_ok(code)
    post: _ == ''
    """
    code = concretize(code)            # one assignment of elements and names per path (declared enumeration)
    with no_tracing():
        res = _run(code)
    return res if res else ok()


def _run(code):
    import vermouth.processors.canonicalize_modifications as cm
    present = PART['present']
    elements, names = {}, {}
    base = len(ELEMENTS)
    for idx, site in enumerate(present):
        digit = code % base
        code //= base
        elements[site] = ELEMENTS[digit]
        names[site] = PART.get('names', ['Q'] * len(present))[idx]      # names of the unexplained atoms: part of the shape
    mol, keys = build(present, elements, names)
    if ('a2' in present and 'a1' not in present) or ('c2' in present and 'c1' not in present) or ('b2' in present and 'b1' not in present):
        return ''       # a chained atom without its head is not attached to the molecule at all: not a residue atom
    recorder = RecLogger()
    saved = cm.LOGGER
    cm.LOGGER = recorder
    try:
        cm.CanonicalizeModifications().run_molecule(mol)
    finally:
        cm.LOGGER = saved
    want, want_warnings, labels = expected(present, elements)
    got_warnings = recorder.types(levels=('WARNING',))
    if got_warnings.count('unknown-input') != want_warnings or len(got_warnings) != want_warnings:
        return 'unknown-input warnings do not match the groups of atoms that no modification explains'
    for site in present:
        key = keys[site]
        verdict = want[site]
        if verdict[0] == 'removed':
            if key in mol.nodes:
                return 'an atom that no modification explains was silently kept'
            continue
        if key not in mol.nodes:
            return 'an atom explained by a modification was removed'
        attrs = mol.nodes[key]
        if attrs['atomname'] != verdict[2]:
            return 'covered atom does not carry the canonical name of its modification'
        mods = [m.name for m in attrs.get('modifications', [])]
        if mods.count(verdict[1]) < 1:
            return 'covered atom is not labelled with exactly the modification that covers it'
        if verdict[1] == 'SX' and attrs.get('charge') != -1:
            return "attribute change ('replace') of the modification not applied to the added atom"
    for resid in (1, 2):
        for atom in ('N', 'CA', 'C'):
            attrs = mol.nodes[keys[(resid, atom)]]
            mods = sorted(m.name for m in attrs.get('modifications', []))
            if mods != sorted(labels[resid]):
                return 'atoms of a touched residue are not labelled with exactly the identified modifications'
            if atom == 'CA' and ('SX' in labels[resid] and resid in (1, 2)):
                has_sx_here = any(want.get(s, ('',))[0] == 'kept' and want[s][1] == 'SX' for s in (('a1', 'b1') if resid == 1 else ('c1',)))
                if has_sx_here and attrs.get('tag') != 'anchored':
                    return "attribute change ('replace') of the modification not applied to the anchor"
            if attrs['atomname'] != atom:
                return 'a template atom was renamed'
    return ''


def warmup():
    global PART
    saved = PART
    force_field()
    for present in (['a1'], ['a1', 'a2', 'd1'], ['c1', 'd1']):
        PART = {'present': present}
        check_ptm(0)
    PART = saved


def selftest(seed):
    import random
    global PART
    rng = random.Random(seed)
    runs, failures = 0, []
    for _ in range(200):
        present = [s for s in SITES if rng.random() < 0.4]
        PART = {'present': present}
        PART['names'] = [rng.choice(NAMES) for _ in present]
        code = rng.randrange(len(ELEMENTS) ** len(present)) if present else 0
        res = check_ptm(code)
        runs += 1
        if res != ok():
            failures.append('check_ptm(%d) %r -> %s' % (code, PART, res))
    return {'runs': runs, 'failures': failures[:3]}


def cases(tier):
    out = []
    sites = SITES[:4] if tier == 'quick' else SITES[:5]
    for r in range(0, len(sites) + 1):
        for present in itertools.combinations(sites, r):
            if ('a2' in present and 'a1' not in present) or ('c2' in present and 'c1' not in present):
                continue
            if len(present) > (3 if tier == 'quick' else 4):
                continue
            patterns = [['Q'] * len(present)]
            for idx in range(len(present) if tier == 'thorough' else min(1, len(present))):
                for special in ('CA', 'N'):
                    pat = ['Q'] * len(present)
                    pat[idx] = special
                    patterns.append(pat)
            for names in patterns:
                out.append({'fn': 'check_ptm', 'part': {'present': list(present), 'names': names},
                            'label': 'ptm[%s names=%s]' % ('+'.join(present) or 'none', ','.join(names)),
                            'timeout': 900, 'path_timeout': 60, 'twin': len(present) == 1 and names == ['Q']})
    # two groups on the same anchor, one of them a fragment whose first atom is named like the anchor
    groups2 = [['b1'], ['b1', 'b2'], ['a1', 'b1'], ['a1', 'b1', 'b2']] + ([['a1', 'a2', 'b1', 'b2']] if tier == 'thorough' else [])
    for present in groups2:
        for special in (('Q', 'CA') if tier == 'quick' else ('Q', 'CA', 'N')):
            names = ['Q'] * len(present)
            names[present.index('b1')] = special
            out.append({'fn': 'check_ptm', 'part': {'present': present, 'names': names},
                        'label': 'ptm[%s names=%s]' % ('+'.join(present), ','.join(names)), 'timeout': 900, 'path_timeout': 60})
    return out
