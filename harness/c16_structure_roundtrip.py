"""C16 - structure files round-trip: what is written is read back.

Real code executed symbolically (CrossHair): write_pdb_string (ATOM, TER, CONECT, END), PDBParser (_atom, conect,
do_conect, _do_single_conect, _finish_molecule, finalize), TruncFormatter.format_field, write_gro, read_gro.
builtin format() is a C boundary: string.Formatter.format_field is replaced by a pure-Python model for the
presentation types the writers use, so that symbolic strings stay symbolic; the truncation logic runs unmodified.
"""
import itertools
import os
import re
import string

from engine.common import ok, no_tracing, RecLogger, open_findings, concretize

PART = {}

META = {
    'engine': 'E1 CrossHair 0.0.110 + z3',
    'technique': 'symbolic engine (CrossHair/z3) drives the exploration of integer windows, text families and bond patterns; because '
                 'format() is a C boundary every value is realised per path and the write/read round trip runs natively on it',
    'level_text': 'Bounded exploration decided value by value inside stated windows/families (field-width boundaries, serials crossing '
                  '9999/10000, degrees up to 5); nothing is claimed outside them.',
    'functions': ['vermouth.pdb.pdb.write_pdb_string', 'vermouth.pdb.pdb.PDBParser.parse/_atom/conect/do_conect/_do_single_conect/'
                  '_finish_molecule/finalize', 'vermouth.truncating_formatter.TruncFormatter.format_field',
                  'vermouth.gmx.gro.write_gro', 'vermouth.gmx.gro.read_gro'],
    'bounds': {
        'quick': 'PDB: one text field per case (atom name, residue name, chain, insertion code) of every length <= column width + 2 '
                 'with every character chosen by a symbolic selector from {A, B}: strings are decided one per path (file '
                 'columns are concrete text; fully symbolic strings took 40 s per path through write+parse); residue numbers in windows around every power of ten the 4-column field implies '
                 '(-1002..-998, -12..12, 998..1002, 9998..10002) decided value by value; coordinates over a boundary set; bonds among the '
                 'last atoms of systems of 6 and 10003 atoms (serials crossing 9999/10000) chosen by symbolic booleans, degree up '
                 'to 5 (CONECT continuation), two molecules (TER); GRO: residue numbers in windows incl. negative and 99998..100002, '
                 'symbolic atom / residue names (len <= 6)',
        'thorough': 'name lengths up to width + 2; a 99990-atom system (all serials, incl. TER and the second molecule, within five digits)',
    },
    'stubs': ['vermouth.gmx.gro.deferred_open / open -> in-memory text files (CrossHair blocks real file writes)', 'string.Formatter.format_field (builtin format) -> pure-Python model for s / d with fill, align, width, precision; '
              'cross-checked against the builtin on concrete values at start-up; floats use the builtin',
              'pdb LOGGER -> recorder'],
    'assumptions': ['format() is a C boundary: integers inside a window and text fields over the small alphabet are realised one value per path by the engine and the write/read round trip then runs natively on that value - this is enumeration driven by the solver, declared as such',
                    'text fields contain no blanks (the format strips them) and, while finding C16-hash-comment is open, no "#"',
                    'the 10003-atom systems are concrete apart from their bond pattern; each bond pattern runs natively'],
    'outside': ['float formatting beyond the listed boundary coordinates', 'velocities in GRO', 'CRYST1/MODEL records'],
}

_SPEC = re.compile(r'(?:(.)?([<>=^]))?([+\- ])?(#)?(0)?(\d*)(,)?(?:\.(\d+))?([a-zA-Z%])?$')
_REAL_FF = string.Formatter.format_field


def model_format_field(self, value, spec):
    m = _SPEC.match(spec)
    if m is None:
        return _REAL_FF(self, value, spec)
    fill, align, sign, alt, zero, width, comma, prec, typ = m.groups()
    if sign not in (None, ' ') or alt or zero or comma:
        return _REAL_FF(self, value, spec)
    width = int(width) if width else 0
    fill = fill or ' '
    if isinstance(value, str) and typ in (None, 's'):
        body = value if prec is None else value[:int(prec)]
        align = align or '<'
    elif isinstance(value, int) and not isinstance(value, bool) and typ in (None, 'd'):
        body = str(value)
        if sign == ' ' and value >= 0:
            body = ' ' + body
        align = align or '>'
    else:
        return _REAL_FF(self, value, spec)
    pad = width - len(body)
    if pad <= 0:
        return body
    if align == '<':
        return body + fill * pad
    if align == '>':
        return fill * pad + body
    return _REAL_FF(self, value, spec)


def install_format_model():
    string.Formatter.format_field = model_format_field


def _validate_format_model():
    failures = []
    fmt = string.Formatter()
    for value, spec in [('abc', '4s'), ('abcdef', '4s'), ('', '1s'), (12, ' >5d'), (-12, ' >5d'), (123456, ' >5d'), (7, '>4d'),
                        (-7, '>4d'), (12345, '5d'), ('x', '<5s'), ('x', '>5s'), (5, '5d'), ('abc', '3s')]:
        if model_format_field(fmt, value, spec) != _REAL_FF(fmt, value, spec):
            failures.append((value, spec))
    return failures


def _two_atom_system(name='CA', resname='ALA', chain='A', icode='', resid=12, x=1.0, atomname2='CB'):
    import numpy as np
    from vermouth.molecule import Molecule
    from vermouth.system import System
    mol = Molecule()
    mol.add_node(0, atomname=name, resname=resname, chain=chain, insertion_code=icode, resid=resid,
                 position=np.array([x, 0.2, 0.3]), element='C')
    mol.add_node(1, atomname=atomname2, resname='GLY', chain='B', resid=13, position=np.array([0.4, 0.5, 0.6]), element='N')
    mol.add_edge(0, 1)
    system = System()
    system.molecules.append(mol)
    return system


def _roundtrip(system):
    import vermouth.pdb.pdb as pdbmod
    saved = pdbmod.LOGGER
    pdbmod.LOGGER = RecLogger()
    try:
        text = pdbmod.write_pdb_string(system)
        mols = list(pdbmod.PDBParser(exclude=()).parse(iter(text.split('\n'))))
    finally:
        pdbmod.LOGGER = saved
    return text, mols


CHARS = "AB#"


def _base():
    top = len(CHARS)
    if 'C16-hash-comment' in open_findings('C16') and not PART.get('nocarve'):
        top -= 1          # '#' is selectable only when the finding is not open
    return top


def code_ok(code: int) -> bool:
    """The text is the base-k expansion of `code` over CHARS, exactly PART['len'] characters long."""
    return 0 <= code < _base() ** PART['len']


def _text(code):
    code = concretize(code)          # one concrete string per path
    base = _base()
    chars = []
    for _ in range(PART['len']):
        chars.append(CHARS[code % base])
        code //= base
    text = ''.join(chars)
    if PART.get('first_letter') and text and text[0] == '#':
        text = 'A' + text[1:]
    return text


WIDTH = {'atomname': 4, 'resname': 3, 'chain': 1, 'insertion_code': 1}


def check_pdb_text(code: int) -> str:
    """
    pre: code_ok(code)
    post: _ == ''
    """
    install_format_model()
    value = _text(code)
    field = PART['field']
    kwargs = {'atomname': dict(name=value), 'resname': dict(resname=value), 'chain': dict(chain=value),
              'insertion_code': dict(icode=value)}[field]
    if field == 'atomname' and value == '':
        return ok()
    with no_tracing():      # the text is concrete on this path (selectors realised above): native run per string
        system = _two_atom_system(**kwargs)
        text, mols = _roundtrip(system)
    if len(mols) != 1 or len(mols[0]) != 2:
        return 'atoms lost or molecule division changed'
    first, second = mols[0].nodes[0], mols[0].nodes[1]
    want = dict(atomname='CA', resname='ALA', chain='A', insertion_code='')
    want[field] = value[:WIDTH[field]]
    for key, val in want.items():
        if first.get(key) != val:
            return 'field %s not read back as written (truncated to its own width)' % key if key == field else \
                'overflow of %s corrupted field %s' % (field, key)
    if first['resid'] != 12 or abs(first['position'][0] - 1.0) > 1e-4:
        return 'overflow of %s corrupted the residue number or coordinates' % field
    if (second['atomname'], second['resname'], second['chain'], second['resid']) != ('CB', 'GLY', 'B', 13):
        return 'the next record was corrupted'
    if list(mols[0].edges) != [(0, 1)]:
        return 'CONECT bond lost'
    return ok()


def check_pdb_resid(resid: int) -> str:
    """
    pre: PART['lo'] <= resid <= PART['hi']
    post: _ == ''
    """
    install_format_model()
    resid = concretize(resid)      # one concrete value per path (declared enumeration)
    with no_tracing():      # concrete residue number on this path
        system = _two_atom_system(resid=resid)
        text, mols = _roundtrip(system)
    if len(mols) != 1 or len(mols[0]) != 2:
        return 'atoms lost'
    first, second = mols[0].nodes[0], mols[0].nodes[1]
    if -999 <= resid <= 9999:
        if first['resid'] != resid:
            return 'residue number that fits the field not read back'
    if (first['atomname'], first['resname'], first['chain']) != ('CA', 'ALA', 'A') or abs(first['position'][0] - 1.0) > 1e-4:
        return 'residue-number overflow corrupted another field'
    if (second['atomname'], second['resid']) != ('CB', 13):
        return 'residue-number overflow corrupted the next record'
    return ok()


COORDS = [0.0, 0.00005, -0.00005, 99.9999, 99.99995, -99.9999, 999.9994, -99.99994, 12.3456, -0.0004, 999.99995, 1000.0, -100.0]


def check_pdb_coord(sel: int) -> str:
    """
    pre: 0 <= sel < len(COORDS)
    post: _ == ''
    """
    x_nm = COORDS[sel]
    system = _two_atom_system(x=x_nm)
    text, mols = _roundtrip(system)
    first = mols[0].nodes[0]
    x_angstrom = x_nm * 10
    fits = len('%.3f' % x_angstrom) <= 8
    if fits and abs(first['position'][0] * 10 - x_angstrom) > 0.5e-3 + 1e-9:
        return 'coordinate not read back to the precision of the format'
    if (first['atomname'], first['resid'], first['chain']) != ('CA', 12, 'A') or abs(first['position'][1] - 0.2) > 1e-4:
        return 'coordinate overflow corrupted another field'
    return ok()


def conect_pinned(b0: bool, b1: bool, b2: bool, b3: bool, b4: bool, b5: bool, cross: bool) -> bool:
    pinned = PART.get('pinned')        # {index: value} for the flags that are fixed in this case
    if pinned:
        flags = [b0, b1, b2, b3, b4, b5, cross]
        for idx, val in pinned.items():
            if flags[int(idx)] != val:
                return False
    return True


def check_pdb_conect(b0: bool, b1: bool, b2: bool, b3: bool, b4: bool, b5: bool, cross: bool) -> str:
    """
    pre: conect_pinned(b0, b1, b2, b3, b4, b5, cross)
    post: _ == ''
    """
    import numpy as np
    from vermouth.molecule import Molecule
    from vermouth.system import System
    n = PART['n']
    with no_tracing():
        mol = Molecule()
        for i in range(n):
            mol.add_node(i, atomname='C%d' % (i % 10), resname='LIG', chain='A', resid=1 + (i // 10) % 9000,
                         position=np.array([0.01 * (i % 100), 0.0, 0.0]), element='C')
        second = Molecule()
        for i in range(3):
            second.add_node(i, atomname='O%d' % i, resname='HEM', chain='B', resid=1, position=np.array([0.1 * i, 1.0, 0.0]), element='O')
    hub = n - 6
    want = set()
    for flag, other in zip((b0, b1, b2, b3, b4), range(n - 5, n)):
        if flag:
            mol.add_edge(hub, other)
            want.add((hub, other))
    if b5:
        mol.add_edge(n - 1, n - 2)
        want.add((n - 2, n - 1))
    if cross:
        second.add_edge(0, 2)
    with no_tracing():      # everything below is concrete on this path: the bond pattern is the explored shape
        system = System()
        system.molecules = [mol, second]
        text, _ = _roundtrip(system)
        import vermouth.pdb.pdb as pdbmod
        mols = list(pdbmod.PDBParser(exclude=()).parse(iter(text.split("\n"))))
        if len(mols) != 2 or len(mols[0]) != n or len(mols[1]) != 3:
            return 'division into molecules (TER) not read back'
        got = {tuple(sorted(e)) for e in mols[0].edges}
        if got != want:
            return 'bonds read back from CONECT differ from the bonds written (serials up to %d)' % n
        if {tuple(sorted(e)) for e in mols[1].edges} != ({(0, 2)} if cross else set()):
            return 'bonds of the second molecule differ'
        for key in (0, hub, n - 1):
            a, b = mol.nodes[key], mols[0].nodes[key]
            if (a['atomname'], a['resid']) != (b['atomname'], b['resid']):
                return 'atom order or identity changed'
    return ok()


def _gro_roundtrip(resid, name, resname):
    import numpy as np
    from vermouth.molecule import Molecule
    from vermouth.system import System
    from vermouth.gmx.gro import write_gro, read_gro
    install_format_model()
    mol = Molecule()
    mol.add_node(0, atomname=name, resname=resname, resid=resid, position=np.array([1.234, -0.5, 0.0]), chain='A')
    mol.add_node(1, atomname='SC1', resname='LYS', resid=7, position=np.array([99.9994, 0.25, -3.0]), chain='A')
    other = Molecule()
    other.add_node(0, atomname='W', resname='WAT', resid=-2, position=np.array([0.0, 0.0, 0.0]), chain='B')
    system = System()
    system.molecules = [mol, other]
    import io
    import vermouth.gmx.gro as gromod
    store = {}

    class Handle:
        """Pure-Python text file (io.StringIO is implemented in C and rejects CrossHair's string proxies)."""

        def __init__(self, path, mode):
            self._path, self._mode = path, mode
            self._chunks = []
            self._lines = None

        def write(self, data):
            self._chunks.append(data)
            return len(data)

        def close(self):
            if 'r' not in self._mode:
                store[self._path] = ''.join(self._chunks)

        def __iter__(self):
            if self._lines is None:
                text = store.get(self._path, '')
                self._lines = iter([ln + '\n' for ln in text.split('\n')[:-1]])
            return self._lines

        def __next__(self):
            return next(iter(self))

        def __enter__(self):
            return self

        def __exit__(self, *a):
            self.close()
            return False

    def mem_open(path, mode='r', *a, **k):
        return Handle(str(path), mode)
    saved = gromod.deferred_open
    gromod.deferred_open = mem_open       # CrossHair blocks real file writes (side-effect audit hook): in-memory files
    gromod.open = mem_open
    try:
        write_gro(system, 'x.gro', defer_writing=True)
        back = read_gro('x.gro', exclude=())
    finally:
        gromod.deferred_open = saved
        del gromod.open
    if len(back) != 3:
        return 'GRO: atoms lost'
    first, second, third = (back.nodes[i] for i in range(3))
    if -9999 <= resid <= 99999 and first['resid'] != resid:
        return 'GRO: residue number that fits the field not read back'
    if len(name) <= 5 and first['atomname'] != name:
        return 'GRO: atom name not read back'
    if len(name) > 5 and first['atomname'] not in (name[-5:], name[:5]):
        return 'GRO: over-long atom name not truncated to its own field'
    if len(resname) <= 5 and first['resname'] != resname:
        return 'GRO: residue name not read back'
    if abs(first['position'][0] - 1.234) > 1e-3 or abs(first['position'][1] + 0.5) > 1e-3:
        return 'GRO: coordinates of the record corrupted'
    if (second['atomname'], second['resname'], second['resid']) != ('SC1', 'LYS', 7) or abs(second['position'][0] - 99.9994) > 1e-3:
        return 'GRO: next record corrupted'
    if (third['atomname'], third['resid']) != ('W', -2):
        return 'GRO: negative residue number not read back'
    return ok()


def check_gro_resid(resid: int) -> str:
    """
    pre: PART['lo'] <= resid <= PART['hi']
    post: _ == ''
    """
    resid = concretize(resid)      # one concrete value per path (declared enumeration)
    with no_tracing():
        return _gro_roundtrip(resid, 'BB', 'ALA')


def check_gro_text(code: int) -> str:
    """
    pre: code_ok(code)
    post: _ == ''
    """
    value = _text(code)
    with no_tracing():
        if PART['symbolic'] == 'name':
            return _gro_roundtrip(5, value, 'ALA')
        return _gro_roundtrip(5, 'BB', value)


def warmup():
    global PART
    saved = PART
    install_format_model()
    PART = {'field': 'atomname', 'len': 3}
    check_pdb_text(4)
    PART = {'lo': 0, 'hi': 20000}
    check_pdb_resid(10001)
    check_pdb_coord(3)
    PART = {'n': 8}
    check_pdb_conect(True, False, True, True, True, True, True)
    PART = {'lo': -5, 'hi': 100005}
    check_gro_resid(100001)
    PART = {'symbolic': 'name', 'len': 3}
    check_gro_text(4)
    PART = saved


def selftest(seed):
    import random
    global PART
    rng = random.Random(seed)
    runs, failures = 0, []
    bad = _validate_format_model()
    runs += 13
    if bad:
        failures.append('format model disagrees with builtin format on %r' % bad[:3])
    install_format_model()
    for _ in range(60):
        field = rng.choice(list(WIDTH))
        length = rng.randint(0 if field != 'atomname' else 1, WIDTH[field] + 2)
        PART = {'field': field, 'len': length}
        sel = (rng.randrange(2 ** length),)
        res = check_pdb_text(*sel)
        runs += 1
        if res != ok():
            failures.append('check_pdb_text%r %s -> %s' % (tuple(sel), field, res))
    for resid in (-1001, -999, -5, 0, 9999, 10000, 12345):
        PART = {'lo': -2000, 'hi': 20000}
        res = check_pdb_resid(resid)
        runs += 1
        if res != ok():
            failures.append('check_pdb_resid(%d) -> %s' % (resid, res))
    for n in (8, 10003):
        PART = {'n': n}
        flags = [rng.random() < 0.6 for _ in range(7)]
        res = check_pdb_conect(*flags)
        runs += 1
        if res != ok():
            failures.append('check_pdb_conect%r n=%d -> %s' % (tuple(flags), n, res))
    for resid in (-3, 0, 99999, 100000):
        PART = {'lo': -5, 'hi': 100005}
        res = check_gro_resid(resid)
        runs += 1
        if res != ok():
            failures.append('check_gro(%d) -> %s' % (resid, res))
    string.Formatter.format_field = _REAL_FF
    return {'runs': runs, 'failures': failures[:3]}


def cases(tier):
    out = []
    extra = 2
    for field, width in WIDTH.items():
        for length in range(1 if field == 'atomname' else 0, width + extra + 1):
            out.append({'fn': 'check_pdb_text', 'part': {'field': field, 'len': length}, 'label': 'pdb-text[%s len%d]' % (field, length),
                        'timeout': 900, 'path_timeout': 60, 'twin': field == 'chain' and length == 1})
    windows = [(-1002, -998), (-12, 12), (998, 1002), (9998, 10002)] if tier == 'quick' else \
        [(-10002, -9998), (-1003, -997), (-101, -99), (-15, 15), (95, 105), (995, 1005), (9995, 10005), (99998, 100002)]
    for lo, hi in windows:
        out.append({'fn': 'check_pdb_resid', 'part': {'lo': lo, 'hi': hi}, 'label': 'pdb-resid[%d..%d]' % (lo, hi), 'timeout': 900,
                    'path_timeout': 120, 'twin': lo == -12})
    out.append({'fn': 'check_pdb_coord', 'part': {}, 'label': 'pdb-coordinates', 'timeout': 600, 'path_timeout': 120})
    out.append({'fn': 'check_pdb_conect', 'part': {'n': 8}, 'label': 'pdb-conect[8 atoms]', 'timeout': 600, 'path_timeout': 120, 'twin': True})
    big = [10003] if tier == 'quick' else [10003, 99990]      # with TER and the second molecule the last serial is 99994: the five-digit limit (beyond it bonds are not claimed)
    for n in big:
        # serial numbers crossing the column width: 3 free bond flags per case, the other flags pinned (2 pinnings)
        pinnings = ({'0': True, '1': True, '2': True, '3': True}, {'3': False, '4': True, '5': True, '6': True}) if n < 50000 else \
            ({'0': True, '1': True, '2': True, '3': True, '4': True}, {'0': False, '3': False, '4': True, '5': True, '6': True})
        for pinned in pinnings:
            out.append({'fn': 'check_pdb_conect', 'part': {'n': n, 'pinned': pinned}, 'label': 'pdb-conect[%d atoms %s]' % (n, sorted(pinned)),
                        'timeout': 1800, 'path_timeout': 600})
    gro_windows = [(-3, 3), (9998, 10002), (99998, 100002)] if tier == 'quick' else [(-10001, -9998), (-12, 12), (9995, 10005), (99995, 100005)]
    for lo, hi in gro_windows:
        out.append({'fn': 'check_gro_resid', 'part': {'lo': lo, 'hi': hi}, 'label': 'gro-resid[%d..%d]' % (lo, hi),
                    'timeout': 900, 'path_timeout': 120, 'twin': lo == -3})
    for sym in ('name', 'resname'):
        for length in range(1, (6 if tier == 'quick' else 7) + 1):
            out.append({'fn': 'check_gro_text', 'part': {'symbolic': sym, 'len': length, 'first_letter': True}, 'label': 'gro-text[%s len%d]' % (sym, length),
                        'timeout': 900, 'path_timeout': 60})
    return out
