"""C08 - warning allowances are accounted exactly; errors are never waived.

Real code executed symbolically (CrossHair): vermouth.log_helpers.ignore_warnings_and_count,
CountingHandler.number_of_counts_by, and maxwarn() loaded from bin/martinize2.

shape (partition, exhausted): kind of each -maxwarn entry in {none, N (blanket number), W (waive type),
L (type:count)}, grouping of entries into option occurrences, insertion order of the warning types.
data (solver): counts of 3 warning types, of error records, critical records, info records (all >= 0,
unbounded), every numeric allowance (any integer), the type selector of each entry (0..3, 3 = a type
that never occurred).
"""
import itertools
import logging

from engine.common import ok, no_tracing
from engine.chsym import smax, pos

PART = {}

META = {
    'engine': 'E1 CrossHair 0.0.110 + z3 (symbolic execution of the real functions)',
    'functions': ['vermouth.log_helpers.ignore_warnings_and_count',
                  'vermouth.log_helpers.CountingHandler.number_of_counts_by',
                  'bin/martinize2:maxwarn'],
    'bounds': {
        'quick': 'spec lists of <= 3 entries (every kind combination), 3 occurring warning types + 1 absent type, '
                 'counts/limits unbounded integers; maxwarn(): type names len<=3, counts in windows',
        'thorough': 'spec lists of <= 4 entries, all 6 insertion orders of the warning types, both groupings',
    },
    'stubs': ['CountingHandler.counts filled directly (handle() is a two-line increment; covered by a separate '
              'harness check_handle)'],
    'assumptions': ['a type both waived by name and given a numeric limit is excluded (left unspecified by the property)',
                    'negative numeric allowances are read as allowance 0'],
    'outside': ['more than 4 -maxwarn entries; more than 4 distinct warning types'],
}

TYPES = ['a', 'b', 'c', 'z']          # 'c' is never named by an entry, 'z' never occurs in the counter
ORDERS = list(itertools.permutations(range(3)))
SEL = {'a': 0, 'b': 1, 'z': 3}


def spec_valid(entries):
    """No type is both waived and limited (left unspecified by the property)."""
    waived = {e[1] for e in entries if e[0] == 'W'}
    limited = {e[1] for e in entries if e[0] == 'L'}
    return not (waived & limited)


def _run(wa, wb, wc, err, crit, info, lims):
    from vermouth.log_helpers import CountingHandler, ignore_warnings_and_count
    entries_shape = PART['entries']          # list of 'N' | 'Wa' | 'Lb' ...
    counter = CountingHandler()
    w = [wa, wb, wc]
    for idx in ORDERS[PART.get('order', 0)]:
        if w[idx] > 0:
            counter.counts[logging.WARNING][TYPES[idx]] = w[idx]
    if PART.get('errors', True):
        counter.counts[logging.ERROR]['a'] = err
    else:
        err = 0
    if PART.get('levels'):
        counter.counts[logging.CRITICAL]['q'] = crit
        counter.counts[logging.INFO]['a'] = info
    else:
        crit = 0
    entries = []
    for shape, l in zip(entries_shape, lims):
        if shape == 'N':
            entries.append((None, l))
        elif shape[0] == 'W':
            entries.append((shape[1], None))
        else:
            entries.append((shape[1], l))
    if PART.get('grouped'):
        specs = [entries]
    else:
        specs = [[e] for e in entries]
    got = ignore_warnings_and_count(counter, specs)
    # ---- oracle: the formula of the statement, written branch-free (one solver query per path of the code)
    waived = set()
    limit = {}
    blanket = 0
    for shape, l in zip(entries_shape, lims):
        if shape == 'N':
            blanket = smax(blanket, l)
        elif shape[0] == 'W':
            waived.add(SEL[shape[1]])
        else:
            limit[SEL[shape[1]]] = smax(limit.get(SEL[shape[1]], 0), l)
    expected = err + crit
    rest = 0
    for idx in range(3):
        if idx in waived:
            continue
        if idx in limit:
            expected = expected + pos(w[idx] - pos(limit[idx]))
        else:
            rest = rest + w[idx]
    expected = expected + pos(rest - pos(blanket))
    return got, expected, (wa + wb + wc), err + crit


def check_formula(wa: int, wb: int, wc: int, err: int, crit: int, info: int,
                  l0: int, l1: int, l2: int, l3: int) -> str:
    """
    pre: wa >= 0 and wb >= 0 and wc >= 0 and err >= 1 and crit >= 1 and info >= 1
    post: _ == ''
    """
    n = len(PART['entries'])
    got, expected, warnings, above = _run(wa, wb, wc, err, crit, info, [l0, l1, l2, l3][:n])
    if got != expected:
        return 'leftover count differs from the stated formula'
    if got < 0:
        return 'negative leftover'
    if got < above:
        return 'an error was waived'
    if got > above + warnings:
        return 'more left over than was logged'
    return ok()


def _record(level, type_):
    with no_tracing():       # LogRecord.__init__ reads clocks/threads/process info: environment, not subject
        rec = logging.LogRecord('x', level, 'f', 1, 'm', (), None)
        if type_ is not None:
            rec.type = type_
    return rec


def check_handle(n_warn: int, n_err: int, same_type: bool) -> str:
    """
    pre: 0 <= n_warn <= 3 and 0 <= n_err <= 3
    post: _ == ''
    """
    # CountingHandler.handle really counts one per record, per level and type
    from vermouth.log_helpers import CountingHandler
    counter = CountingHandler()
    for _ in range(n_warn):
        counter.handle(_record(logging.WARNING, 'a'))
    for _ in range(n_err):
        counter.handle(_record(logging.ERROR, None if same_type else 'b'))
    if counter.number_of_counts_by(level=logging.WARNING) != n_warn + n_err:
        return 'records at or above warning level miscounted'
    if counter.number_of_counts_by(level=logging.ERROR) != n_err:
        return 'error records miscounted'
    if counter.number_of_counts_by(type='a') != n_warn:
        return 'per-type count wrong'
    if counter.counts[logging.WARNING].get('a', 0) != n_warn:
        return 'warning-level count wrong'
    if n_err and counter.counts[logging.ERROR].get('general' if same_type else 'b', 0) != n_err:
        return 'default type not applied'
    return ok()


_M2 = None


def _martinize2():
    global _M2
    if _M2 is None:
        import importlib.machinery
        import importlib.util
        loader = importlib.machinery.SourceFileLoader('martinize2_cli', '/repo/bin/martinize2')
        spec = importlib.util.spec_from_loader('martinize2_cli', loader)
        _M2 = importlib.util.module_from_spec(spec)
        loader.exec_module(_M2)
    return _M2


def check_maxwarn_type(name: str) -> str:
    """
    pre: 1 <= len(name) <= 3
    pre: all(ch in 'ab-1' for ch in name)
    post: _ == ''
    """
    got = _martinize2().maxwarn(name)
    body = name[1:] if name[0] == '-' else name
    numeric = len(body) > 0 and all(ch == '1' for ch in body)
    if numeric:
        if got != (None, int(name)):
            return 'number not parsed as blanket allowance'
    elif got != (name, None):
        return 'bare type name not parsed as (name, None)'
    return ok()


def check_maxwarn_count(name: str, count: int) -> str:
    """
    pre: len(name) <= 2 and ':' not in name
    pre: PART['lo'] <= count <= PART['hi']
    post: _ == ''
    """
    m2 = _martinize2()
    got = m2.maxwarn(name + ':' + str(count))
    if got != (name, count):
        return 'type:count not parsed as given'
    got = m2.maxwarn(str(count))
    if got != (None, count):
        return 'bare number not parsed as blanket allowance'
    return ok()


def check_maxwarn_bad(a: str, b: str, c: str) -> str:
    """
    pre: len(a) <= 1 and len(b) <= 1 and len(c) <= 1
    pre: ':' not in a and ':' not in b and ':' not in c
    post: _ == ''
    """
    import argparse
    m2 = _martinize2()
    try:
        m2.maxwarn(a + ':' + b + ':' + c)
    except argparse.ArgumentTypeError:
        return ok()
    return 'specification with two colons accepted'


def warmup():
    global PART
    saved = PART
    PART = {'entries': ['La', 'Wb', 'N'], 'order': 1, 'grouped': False, 'levels': True}
    assert check_formula(3, 2, 1, 1, 1, 4, 2, 0, 1, 0) == ok()
    PART = {'entries': ['La', 'La'], 'order': 0, 'grouped': True, 'errors': False}
    assert check_formula(5, 0, 1, 1, 1, 1, -2, 3, 0, 0) == ok()
    assert check_handle(2, 1, True) == ok()
    assert check_maxwarn_type('ab') == ok()
    PART = {'lo': -3, 'hi': 12}
    assert check_maxwarn_count('x', 11) == ok()
    assert check_maxwarn_bad('a', '1', '2') == ok()
    PART = saved


OPTIONS = ['N', 'Wa', 'Wb', 'Wz', 'La', 'Lb', 'Lz']


def selftest(seed):
    import random
    global PART
    rng = random.Random(seed)
    failures = []
    runs = 0
    for _ in range(300):
        n = rng.randint(0, 4)
        entries = [rng.choice(OPTIONS) for _ in range(n)]
        if not spec_valid(entries):
            continue
        PART = {'entries': entries, 'order': rng.randrange(6), 'grouped': rng.random() < 0.5,
                'levels': rng.random() < 0.5, 'errors': rng.random() < 0.7}
        vals = [rng.randint(0, 6) for _ in range(3)] + [rng.randint(1, 4)] + [rng.randint(1, 3), rng.randint(1, 3)] + \
               [rng.randint(-3, 8) for _ in range(4)]
        res = check_formula(*vals)
        runs += 1
        if res != ok():
            failures.append('check_formula%r part=%r -> %s' % (vals, PART, res))
    return {'runs': runs, 'failures': failures[:3]}


def cases(tier):
    out = []
    maxn = 3 if tier == 'quick' else 4
    k = 0
    for n in range(0, maxn + 1):
        for entries in itertools.product(OPTIONS, repeat=n):
            if not spec_valid(entries):
                continue
            # limits are symbolic, so orders of same-kind entries are covered by the data; for n >= 3 in the
            # quick tier (n == 4 always) only one order per multiset of entries is run.
            if (n == 4 or (n == 3 and tier == 'quick')) and sorted(entries) != list(entries):
                continue
            k += 1
            if tier == 'quick':
                variants = [(k % 6, k % 2 == 0, k % 3 == 0, k % 4 != 0)]
            else:
                variants = [(k % 6, False, True, True), ((k + 3) % 6, True, False, k % 2 == 0)]
            for order, grouped, levels, errors in variants:
                out.append({'fn': 'check_formula',
                            'part': {'entries': list(entries), 'order': order, 'grouped': grouped, 'levels': levels,
                                     'errors': errors},
                            'label': 'formula[%s|o%d g%d l%d e%d]' % (','.join(entries) or '-', order, grouped, levels, errors),
                            'timeout': 200, 'path_timeout': 30, 'twin': k % 25 == 1})
    out.append({'fn': 'check_handle', 'part': {}, 'label': 'handle', 'timeout': 120})
    out.append({'fn': 'check_maxwarn_type', 'part': {}, 'label': 'maxwarn-type', 'timeout': 240})
    windows = [(-12, 12), (95, 105)] if tier == 'quick' else [(-25, 25), (95, 105), (995, 1005), (-105, -95)]
    for lo, hi in windows:
        out.append({'fn': 'check_maxwarn_count', 'part': {'lo': lo, 'hi': hi}, 'label': 'maxwarn-count[%d..%d]' % (lo, hi),
                    'timeout': 240})
    out.append({'fn': 'check_maxwarn_bad', 'part': {}, 'label': 'maxwarn-two-colons', 'timeout': 240})
    return out
