"""C12 - editing a molecule keeps atoms, bonds and interactions consistent.

Real code executed symbolically (CrossHair): Molecule.add_node, add_nodes_from, remove_node, remove_nodes_from,
add_interaction, add_or_replace_interaction, remove_interaction, copy, subgraph, merge_molecule, Block.to_molecule.

shape: start state (partition) + a history of 2 (quick) / 3 (thorough) operations whose kind and node arguments
are symbolic selectors forked by the engine - every history in the family is explored.
data (solver): resid / charge_group of every atom, block offsets: unbounded integers.
"""
from engine.common import ok, open_findings

PART = {}

META = {
    'engine': 'E1 CrossHair 0.0.110 + z3',
    'functions': ['vermouth.molecule.Molecule.add_node', 'Molecule.add_nodes_from (networkx)', 'Molecule.remove_node',
                  'Molecule.remove_nodes_from', 'Molecule._remove_interactions_with_node', 'Molecule.add_interaction',
                  'Molecule.add_or_replace_interaction', 'Molecule.remove_interaction', 'Molecule.copy',
                  'Molecule.subgraph', 'Molecule.edges_between', 'Molecule.merge_molecule', 'Block.to_molecule'],
    'bounds': {
        'quick': '7 start states x every history of 2 steps out of 29 operation instances (14 kinds over keys 0, 1, 9, '
                 'highest present, fresh); resid/charge_group unbounded integers',
        'thorough': 'histories of 3 steps (first step out of the 6 most state-changing instances)',
    },
    'stubs': [],
    'assumptions': ["'last atom' of the receiving molecule = the atom with the highest key (the code's stated assumption)",
                    'editing = calls of the public Molecule API; in-place mutation of shared parameter lists is outside',
                    'known finding C12-stale-max-node (while open): histories in which merge_molecule meets a stale '
                    'highest-key cache are carved out by a ghost model of that cache computed from the history alone'],
    'outside': ['histories longer than 3 operations', 'non-integer node keys in merges', 'log_entries/citations bookkeeping'],
}

KEYS = [0, 1, 9]


def _ff():
    from vermouth.forcefield import ForceField
    global _FF
    try:
        return _FF
    except NameError:
        _FF = ForceField(name='c12')
        return _FF


def newcomer(r, c):
    from vermouth.molecule import Molecule
    other = Molecule(force_field=_ff(), nrexcl=1)
    other.add_nodes_from([(0, {'resid': r, 'charge_group': c, 'tag': 'new0'}),
                          (5, {'resid': r + 1, 'charge_group': c + 2, 'tag': 'new5'})])
    other.add_edge(0, 5, kind='x')
    other.add_interaction('bonds', (0, 5), ['p'])
    other.add_interaction('bonds', (0, 5), ['p2'])        # second term on the same atoms, same version: both must survive
    other.add_interaction('angles', (5, 0, 5), ['q'], {'version': 2})
    return other


def snap(mol):
    nodes = sorted((k, sorted(dict(v).items(), key=lambda kv: kv[0])) for k, v in mol.nodes.items())
    edges = sorted(tuple(sorted(e)) for e in mol.edges)
    inters = sorted((t, [(tuple(i.atoms), tuple(i.parameters), i.meta.get('version', 0)) for i in lst])
                    for t, lst in mol.interactions.items() if lst)
    return nodes, edges, inters


def dangling(mol):
    for itype, lst in mol.interactions.items():
        for inter in lst:
            for atom in inter.atoms:
                if atom not in mol.nodes:
                    return True
    for a, b in mol.edges:
        if a not in mol.nodes or b not in mol.nodes:
            return True
    return False


class Ghost:
    """Model of the unmodified tree's max_node cache, a function of the call history only (used solely to
    delimit the recorded finding C12-stale-max-node)."""

    def __init__(self):
        self.value = None

    def add_node(self):
        self.value = self.value + 1 if self.value else 0

    def merge(self, keys, n_new):
        stale = False
        if keys:
            if not self.value:
                self.value = max(keys)
            stale = self.value != max(keys)
        else:
            self.value = 0
        for _ in range(n_new):
            self.add_node()
        return stale


def start_state(name, r, c):
    from vermouth.molecule import Molecule
    mol = Molecule(force_field=_ff(), nrexcl=1)
    ghost = Ghost()
    if name == 'empty':
        return mol, ghost
    if name in ('add01', 'merged', 'merged-1', 'add09'):
        second = 9 if name == 'add09' else 1
        mol.add_node(0, resid=r, charge_group=c, tag='a')
        ghost.add_node()
        mol.add_node(second, resid=r + 1, charge_group=c, tag='b')
        ghost.add_node()
        mol.add_edge(0, second)
        mol.add_interaction('bonds', (0, second), ['k'])
    elif name in ('bulk01', 'bulk91'):
        keys = (0, 1) if name == 'bulk01' else (9, 1)
        mol.add_nodes_from([(keys[0], {'resid': r, 'charge_group': c, 'tag': 'a'}),
                            (keys[1], {'resid': r + 1, 'charge_group': c, 'tag': 'b'})])
        mol.add_edge(*keys)
        mol.add_interaction('bonds', keys, ['k'])
    if name in ('merged', 'merged-1'):
        ghost.merge(list(mol.nodes), 2)
        mol.merge_molecule(newcomer(1, 1))
    if name == 'merged-1':
        mol.remove_node(1)
    return mol, ghost


STARTS = ['empty', 'add01', 'add09', 'bulk01', 'bulk91', 'merged', 'merged-1']
NOPS = 14


def check_merge(mol, before_snap, before_nodes, before_inter, other, corr, r, c):
    """The merge clause of the property, judged from the public state."""
    new_keys = list(corr.values())
    if len(set(new_keys)) != len(new_keys) or set(corr) != set(other.nodes):
        return 'merge: newcomer atoms not mapped one to one'
    for k in new_keys:
        if k in before_nodes:
            return 'merge: a newcomer atom was given a key that already existed (existing atom overwritten)'
    for k, attrs in before_nodes.items():
        if k not in mol.nodes or dict(mol.nodes[k]) != attrs:
            return 'merge: an atom of the receiving molecule was dropped or changed'
    if len(mol.nodes) != len(before_nodes) + len(other.nodes):
        return 'merge: atom count is not the sum of both operands'
    if before_nodes:
        last = max(before_nodes)
        shift_r = before_nodes[last].get('resid', 1)
        shift_c = before_nodes[last].get('charge_group', 1)
    else:
        shift_r = shift_c = 0
    for old, new in corr.items():
        want = dict(other.nodes[old])
        want['resid'] = want['resid'] + shift_r
        want['charge_group'] = want['charge_group'] + shift_c
        if dict(mol.nodes[new]) != want:
            return 'merge: residue number / charge group of the newcomer not shifted by those of the last atom'
    for a, b in before_snap[1]:
        if not mol.has_edge(a, b):
            return 'merge: a bond of the receiving molecule was lost'
    for a, b in other.edges:
        if not mol.has_edge(corr[a], corr[b]) or mol.edges[corr[a], corr[b]] != other.edges[a, b]:
            return 'merge: a bond of the newcomer was lost or re-keyed inconsistently'
    if len(mol.edges) != len(before_snap[1]) + len(other.edges):
        return 'merge: bonds appeared that neither operand had'
    for itype, lst in before_inter.items():
        have = [(tuple(i.atoms), tuple(i.parameters)) for i in mol.interactions.get(itype, [])]
        if have[:len(lst)] != lst:
            return 'merge: an interaction of the receiving molecule was changed'
    for itype, lst in other.interactions.items():
        have = [(tuple(i.atoms), tuple(i.parameters), i.meta) for i in mol.interactions.get(itype, [])]
        for inter in lst:
            mapped = (tuple(corr[a] for a in inter.atoms), tuple(inter.parameters), inter.meta)
            if have.count(mapped) != 1:
                return 'merge: an interaction of the newcomer was lost, duplicated or re-keyed inconsistently'
    total_before = sum(len(v) for v in before_inter.values())
    total_after = sum(len(v) for v in mol.interactions.values())
    if total_after != total_before + sum(len(v) for v in other.interactions.values()):
        return 'merge: interaction count is not the sum of both operands'
    return ''


def apply_op(state, op, a, b, r, c):
    """Apply operation number `op` with node selectors a, b. Returns '' or a violation text; 'carved' if the
    history falls under the recorded finding."""
    mol, ghost = state['mol'], state['ghost']
    ka, kb = a, b
    if op == 0:      # add one atom (a new key, or an attribute update of an existing atom)
        mol.add_node(ka, resid=r, charge_group=c, tag='n')
        ghost.add_node()
        if ka not in mol.nodes or mol.nodes[ka]['resid'] != r:
            return 'add_node did not store the atom'
    elif op == 1:    # bulk add
        mol.add_nodes_from([(ka, {'resid': r, 'charge_group': c, 'tag': 'm'}), (kb, {'resid': r + 2, 'charge_group': c, 'tag': 'm'})])
    elif op == 2:    # remove one
        if ka in mol.nodes:
            mol.remove_node(ka)
            if ka in mol.nodes:
                return 'remove_node left the atom'
    elif op == 3:    # bulk remove, list
        victims = [k for k in dict.fromkeys([ka, kb]) if k in mol.nodes]
        mol.remove_nodes_from(victims)
        if any(k in mol.nodes for k in victims):
            return 'remove_nodes_from(list) left an atom'
    elif op == 4:    # bulk remove, generator
        victims = [k for k in dict.fromkeys([ka, kb]) if k in mol.nodes]
        mol.remove_nodes_from(k for k in victims)
        if any(k in mol.nodes for k in victims):
            return 'remove_nodes_from(generator) left an atom'
    elif op == 5:    # add interaction (+ bond)
        if ka in mol.nodes and kb in mol.nodes:
            n_before = len(mol.interactions.get('bonds', []))
            mol.add_interaction('bonds', (ka, kb), ['i'])
            if ka != kb:
                mol.add_edge(ka, kb)
            if len(mol.interactions['bonds']) != n_before + 1:
                return 'add_interaction did not append exactly one interaction'
        else:
            try:
                mol.add_interaction('bonds', (ka, kb), ['i'])
            except KeyError:
                pass
            else:
                return 'add_interaction accepted an atom that is not in the molecule'
    elif op == 6:    # add or replace
        if ka in mol.nodes and kb in mol.nodes:
            same = [i for i in mol.interactions.get('bonds', []) if i.atoms == (ka, kb) and i.meta.get('version', 0) == 0]
            n_before = len(mol.interactions.get('bonds', []))
            mol.add_or_replace_interaction('bonds', (ka, kb), ['r'])
            now = [i for i in mol.interactions['bonds'] if i.atoms == (ka, kb) and i.meta.get('version', 0) == 0]
            if len(now) != max(1, len(same)) or not any(i.parameters == ['r'] for i in now):
                return 'add_or_replace_interaction did not replace in place / add once'
            if len(mol.interactions['bonds']) != n_before + (0 if same else 1):
                return 'add_or_replace_interaction changed the number of interactions wrongly'
    elif op == 7:    # remove interaction
        same = [i for i in mol.interactions.get('bonds', []) if i.atoms == (ka, kb) and i.meta.get('version', 0) == 0]
        n_before = len(mol.interactions.get('bonds', []))
        try:
            mol.remove_interaction('bonds', (ka, kb))
        except KeyError:
            if same:
                return 'remove_interaction failed on an existing interaction'
        else:
            if not same:
                return 'remove_interaction removed something that was not there'
            if len(mol.interactions.get('bonds', [])) != n_before - 1:
                return 'remove_interaction removed more than one interaction'
    elif op == 8:    # merge
        other = newcomer(r, c)
        stale = ghost.merge(list(mol.nodes), len(other.nodes))
        if stale and 'C12-stale-max-node' in open_findings('C12') and not PART.get('nocarve'):
            return 'carved'
        before_snap = snap(mol)
        before_nodes = {k: dict(v) for k, v in mol.nodes.items()}
        before_inter = {t: [(tuple(i.atoms), tuple(i.parameters)) for i in lst] for t, lst in mol.interactions.items() if lst}
        corr = mol.merge_molecule(other)
        res = check_merge(mol, before_snap, before_nodes, before_inter, other, corr, r, c)
        if res:
            return res
    elif op == 9:    # take a copy that must stay as it is while the source is edited further
        state['shadow'] = mol.copy()
        state['shadow_snap'] = snap(state['shadow'])
        if state['shadow_snap'] != snap(mol):
            return 'copy differs from its source'
    elif op == 10:   # edit a copy, the source must not change
        before = snap(mol)
        dup = mol.copy()
        if ka in dup.nodes:
            dup.remove_node(ka)
        else:
            dup.add_node(ka, resid=r, charge_group=c)
        if kb in dup.nodes:
            dup.nodes[kb]['resid'] = r + 7
            if ka in dup.nodes:
                dup.add_interaction('angles', (kb, ka, kb), ['z'])
        dup.merge_molecule(newcomer(r, c))      # a fresh copy has no cached highest key
        if dangling(dup):
            return 'copy has interactions on absent atoms after editing it'
        if snap(mol) != before:
            return 'editing a copy changed its source'
    elif op == 11:   # subgraph
        chosen = [k for k in dict.fromkeys([ka, kb]) if k in mol.nodes]
        before = snap(mol)
        sub = mol.subgraph(chosen)
        if sorted(sub.nodes) != sorted(chosen):
            return 'subgraph does not have exactly the requested atoms'
        if dangling(sub):
            return 'subgraph keeps an interaction on an atom it does not contain'
        want_inter = sum(1 for lst in mol.interactions.values() for i in lst if all(x in chosen for x in i.atoms))
        if sum(len(v) for v in sub.interactions.values()) != want_inter:
            return 'subgraph lost or invented interactions'
        want_edges = sum(1 for x, y in mol.edges if x in chosen and y in chosen)
        if len(sub.edges) != want_edges:
            return 'subgraph lost or invented bonds'
        for k in chosen:
            sub.nodes[k]['resid'] = r + 11
        if chosen:
            sub.remove_node(chosen[0])
        if snap(mol) != before:
            return 'editing a subgraph changed its source'
    elif op == 12:   # subgraph given with a repeated key
        chosen = [k for k in [ka, kb, ka] if k in mol.nodes]
        sub = mol.subgraph(chosen)
        if sorted(sub.nodes) != sorted(set(chosen)) or dangling(sub):
            return 'subgraph with a repeated key is inconsistent'
    elif op == 13:   # attribute edit on the source
        if ka in mol.nodes:
            mol.nodes[ka]['resid'] = mol.nodes[ka].get('resid', 0) + 3
    return ''


# One editing step = one entry of this table: (operation number, key expression a, key expression b).
# Key expressions: an int is a literal key, 'T' the highest key present at that moment, 'T+1'/'T+2' fresh keys
# above it, 7 a key that is never present.
INSTANCES = [
    (0, 0, 0), (0, 9, 0), (0, 'T+1', 0),
    (1, 1, 'T+2'),
    (2, 0, 0), (2, 1, 0), (2, 'T', 0),
    (3, 0, 1), (3, 'T', 0),
    (4, 1, 'T'), (4, 0, 0),
    (5, 0, 1), (5, 1, 'T'), (5, 'T', 0), (5, 0, 7),
    (6, 0, 1), (6, 1, 'T'),
    (7, 0, 1), (7, 1, 'T'),
    (8, 0, 0),
    (9, 0, 0),
    (10, 0, 1), (10, 'T', 0),
    (11, 0, 1), (11, 'T', 'T'), (11, 7, 7),
    (12, 0, 1),
    (13, 0, 0), (13, 'T', 0),
]
FIRST_OPS_THOROUGH = [0, 2, 6, 9, 19, 20]


def _key(expr, mol):
    if isinstance(expr, int):
        return expr
    top = max(mol.nodes) if len(mol.nodes) else -1
    return top + {'T': 0, 'T+1': 1, 'T+2': 2}[expr]


def in_range(i0: int, i1: int, i2: int) -> bool:
    steps = PART.get('steps', 2)
    for idx, i in enumerate((i0, i1, i2)):
        if idx >= steps:
            if i != 0:
                return False
            continue
        fixed = PART.get('i%d' % idx)
        if fixed is not None:
            if i != fixed:
                return False
        elif not 0 <= i < len(INSTANCES):
            return False
    return True


def check_history(i0: int, i1: int, i2: int, r: int, c: int) -> str:
    """
    pre: in_range(i0, i1, i2)
    post: _ == ''
    """
    mol, ghost = start_state(PART['start'], r, c)
    state = {'mol': mol, 'ghost': ghost}
    steps = PART.get('steps', 2)
    for i in (i0, i1, i2)[:steps]:
        op, ea, eb = INSTANCES[i]
        try:
            res = apply_op(state, op, _key(ea, mol), _key(eb, mol), r, c)
        except KeyError:
            return 'KeyError from an editing operation on valid arguments'
        if res == 'carved':
            return ok()
        if res:
            return res
        if dangling(mol):
            return 'an interaction or bond refers to an atom that is no longer present'
        if 'shadow' in state and snap(state['shadow']) != state['shadow_snap']:
            return 'a copy changed when its source was edited'
    return ok()


def check_to_molecule(atom_offset: int, offset_resid: int, offset_cg: int, r: int) -> str:
    """
    pre: 0 <= atom_offset <= 3
    post: _ == ''
    """
    from vermouth.molecule import Block
    block = Block(force_field=_ff())
    block.name = 'BLK'
    block.nrexcl = 1
    block.add_node('A', atomname='A', resid=r, charge_group=2)
    block.add_node('B', atomname='B', charge_group=3)
    block.add_node('C', atomname='C', resid=r + 1)
    block.add_edge('A', 'B')
    block.add_edge('B', 'C')
    block.add_interaction('bonds', ('A', 'B'), ['1'])
    block.add_interaction('angles', ('A', 'B', 'C'), ['2'], {'version': 1})
    mol = block.to_molecule(atom_offset=atom_offset, offset_resid=offset_resid, offset_charge_group=offset_cg)
    keys = list(mol.nodes)
    if keys != [atom_offset, atom_offset + 1, atom_offset + 2]:
        return 'to_molecule: keys are not consecutive from the offset'
    want = [('A', r + offset_resid, 2 + offset_cg), ('B', 1 + offset_resid, 3 + offset_cg),
            ('C', r + 1 + offset_resid, 1 + offset_cg)]
    for key, (name, resid, cg) in zip(keys, want):
        attrs = mol.nodes[key]
        if attrs['atomname'] != name or attrs['resid'] != resid or attrs['charge_group'] != cg or attrs['resname'] != 'BLK':
            return 'to_molecule: attributes not shifted uniformly'
    if sorted(tuple(sorted(e)) for e in mol.edges) != [(keys[0], keys[1]), (keys[1], keys[2])]:
        return 'to_molecule: bonds not re-keyed consistently'
    if [tuple(i.atoms) for i in mol.interactions['bonds']] != [(keys[0], keys[1])] or \
            [tuple(i.atoms) for i in mol.interactions['angles']] != [(keys[0], keys[1], keys[2])]:
        return 'to_molecule: interactions not re-keyed consistently'
    if dict(block.nodes['A']) != {'atomname': 'A', 'resid': r, 'charge_group': 2}:
        return 'to_molecule changed the block'
    return ok()


def warmup():
    global PART
    saved = PART
    for start in STARTS:
        PART = {'start': start, 'steps': 3}
        for hist in [(2, 11, 19), (3, 7, 20), (19, 9, 22), (20, 4, 23), (15, 17, 26), (27, 19, 19), (1, 14, 24)]:
            check_history(*hist, 4, 6)
    check_to_molecule(2, 5, 7, 3)
    PART = saved


def selftest(seed):
    import random
    global PART
    rng = random.Random(seed)
    runs, failures = 0, []
    for _ in range(500):
        PART = {'start': rng.choice(STARTS), 'steps': 3}
        hist = [rng.randrange(len(INSTANCES)) for _ in range(3)]
        res = check_history(*hist, rng.randint(-5, 50), rng.randint(0, 9))
        runs += 1
        if res != ok():
            failures.append('check_history%r start=%s -> %s' % (tuple(hist), PART['start'], res))
    return {'runs': runs, 'failures': failures[:3]}


def cases(tier):
    out = []
    for start in STARTS:
        if tier == 'quick':
            for i0 in range(len(INSTANCES)):
                out.append({'fn': 'check_history', 'part': {'start': start, 'steps': 2, 'i0': i0},
                            'label': 'history[%s|%d,*]' % (start, i0), 'timeout': 300, 'path_timeout': 20,
                            'twin': i0 in (0, 19)})
        else:
            for i0 in FIRST_OPS_THOROUGH:
                for i1 in range(len(INSTANCES)):
                    out.append({'fn': 'check_history', 'part': {'start': start, 'steps': 3, 'i0': i0, 'i1': i1},
                                'label': 'history[%s|%d,%d,*]' % (start, i0, i1), 'timeout': 400, 'path_timeout': 20,
                                'twin': i0 == 19 and i1 == 0})
    out.append({'fn': 'check_to_molecule', 'part': {}, 'label': 'Block.to_molecule', 'timeout': 120})
    return out
