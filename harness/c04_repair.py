"""C04 - atoms are identified by connectivity, not by the names in the input.

Real code executed symbolically (CrossHair): RepairGraph.run_system / run_molecule, make_reference (name-biased
node ordering, relabelling), _get_reference_residue, repair_residue, repair_graph; ISMAGS.largest_common_subgraph
runs natively inside CrossHair's NoTracing() (its set/frozenset state cannot be traced) - legitimate because
every input ISMAGS reads (integer node keys, edges, the concrete element attribute) is concrete at that call;
the wrapper checks this.

data (solver): the atom name of every input atom - arbitrary strings (length partitioned, characters symbolic):
the quantifier "any renaming".  shape (partition): block, atom order, missing atom, extra attached atom.
"""
import itertools

from engine.common import ok, RecLogger, no_tracing

PART = {}

META = {
    'engine': 'E1 CrossHair 0.0.110 + z3 (ISMAGS native under NoTracing)',
    'functions': ['vermouth.processors.repair_graph.RepairGraph.run_system', 'make_reference', '_get_reference_residue',
                  'repair_residue', 'repair_graph', 'vermouth.graph_utils.make_residue_graph',
                  'vermouth.ismags.ISMAGS.largest_common_subgraph (native, inputs concrete)'],
    'bounds': {
        'quick': 'block CA-C(-O1)(-O2) (two symmetric oxygens): 4 input atoms; one atom name per case is an arbitrary string of 1-2 characters (symbolic), the others '
                 'come from 3 menus (canonical, swapped, unrelated), atom order identity / reversed, nothing missing / O2 missing / CA missing, '
                 'optional extra oxygen attached to CA; ring block with two adjacent atoms missing; two-residue molecules '
                 '(carboxyl/amide: same skeleton, different elements) with scrambled names; requested modification lists with none '
                 'entries in every position (C19 repair clause)',
        'thorough': 'plus branched block N-CA(-CB)-C and ring block of 4 with one hetero atom; two symbolic names at once on the carboxyl block',
    },
    'stubs': ['vermouth.processors.repair_graph.ISMAGS -> subclass running largest_common_subgraph under NoTracing (asserts '
              'that node keys are ints and elements concrete)', 'repair_graph.LOGGER -> recorder'],
    'assumptions': ['elements are given (concrete) and correct', 'residue identity concrete'],
    'outside': ['the ~1000 shipped blocks', 'residues of more than 4 heavy atoms', 'requested mutations/modifications (C19)'],
}

BLOCKS = {
    'carboxyl': dict(atoms=[('CA', 'C'), ('C', 'C'), ('O1', 'O'), ('O2', 'O')], edges=[('CA', 'C'), ('C', 'O1'), ('C', 'O2')]),
    'branched': dict(atoms=[('N', 'N'), ('CA', 'C'), ('CB', 'C'), ('C', 'C')], edges=[('N', 'CA'), ('CA', 'CB'), ('CA', 'C')]),
    'amide': dict(atoms=[('CA', 'C'), ('C', 'C'), ('O1', 'O'), ('N2', 'N')], edges=[('CA', 'C'), ('C', 'O1'), ('C', 'N2')]),
    'five': dict(atoms=[('K1', 'S'), ('M1', 'C'), ('X', 'O'), ('M3', 'N'), ('K2', 'P')],
                 edges=[('K1', 'M1'), ('M1', 'X'), ('M1', 'M3'), ('M3', 'K2')]),
    'ring': dict(atoms=[('C1', 'C'), ('C2', 'C'), ('N3', 'N'), ('C4', 'C')], edges=[('C1', 'C2'), ('C2', 'N3'), ('N3', 'C4'), ('C4', 'C1')]),
}
_FF = {}


def force_field():
    if not _FF:
        from vermouth.forcefield import ForceField
        from vermouth.molecule import Block
        ff = ForceField(name='c04')
        for name, spec in BLOCKS.items():
            block = Block(force_field=ff)
            block.name = name
            block.nrexcl = 1
            for atom, element in spec['atoms']:
                block.add_node(atom, atomname=atom, resname=name, resid=1, charge_group=1, atype='T', element=element)
            block.add_edges_from(spec['edges'])
            ff.blocks[name] = block
            ff.reference_graphs[name] = block
        from vermouth.molecule import Link
        mod = Link(force_field=ff, name='ME')
        mod.add_node('CA', atomname='CA', PTM_atom=False, element='C')
        mod.add_node('CM', atomname='CM', PTM_atom=True, element='C')
        mod.add_edge('CA', 'CM')
        ff.modifications['ME'] = mod
        _FF['ff'] = ff
    return _FF['ff']


def install():
    import vermouth.processors.repair_graph as rg
    from vermouth.ismags import ISMAGS

    class NativeISMAGS(ISMAGS):
        def largest_common_subgraph(self, symmetry=True):
            with no_tracing():
                for graph in (self.graph, self.subgraph):
                    for node, attrs in graph.nodes(data=True):
                        assert type(node) is int and type(attrs.get('element')) is str, 'ISMAGS input not concrete'
                found = list(ISMAGS.largest_common_subgraph(self, symmetry))
            return iter(found)

        def subgraph_isomorphisms_iter(self, symmetry=True):
            with no_tracing():
                found = list(ISMAGS.subgraph_isomorphisms_iter(self, symmetry))
            return iter(found)
    rg.ISMAGS = NativeISMAGS
    rg.LOGGER = RecLogger()
    return rg


def _largest_common(spec, mol_atoms, mol_edges):
    """Size of a largest common induced, element-preserving subgraph of block and input residue (brute force)."""
    block_atoms = spec['atoms']
    block_edges = {frozenset(e) for e in spec['edges']}
    best = 0
    for size in range(min(len(block_atoms), len(mol_atoms)), 0, -1):
        for bsel in itertools.combinations(block_atoms, size):
            for msel in itertools.permutations(mol_atoms, size):
                if all(b[1] == m[1] for b, m in zip(bsel, msel)) and all(
                        (frozenset((bsel[i][0], bsel[j][0])) in block_edges) == (frozenset((msel[i][0], msel[j][0])) in mol_edges)
                        for i in range(size) for j in range(i + 1, size)):
                    return size
    return best


def names_ok(n0: str, n1: str, n2: str, n3: str) -> bool:
    """Positions in PART['sym'] carry arbitrary names of 1..2 characters; the other positions are pinned to PART['fixed']."""
    fixed = PART['fixed']
    names = [n0, n1, n2, n3]
    for idx, name in enumerate(names):
        if idx >= len(fixed):
            if name != '':
                return False
        elif idx in PART['sym']:
            if not 1 <= len(name) <= 2:
                return False
        elif name != fixed[idx]:
            return False
    return True


def check_repair(n0: str, n1: str, n2: str, n3: str) -> str:
    """
    pre: names_ok(n0, n1, n2, n3)
    post: _ == ''
    """
    from vermouth.molecule import Molecule
    from vermouth.system import System
    rg = install()
    ff = force_field()
    spec = BLOCKS[PART['block']]
    atoms = spec['atoms']
    missing = PART['missing']           # canonical name(s) of the atom(s) left out, or None
    gone = missing if isinstance(missing, list) else [missing]
    present = [a for a in atoms if a[0] not in gone]
    order = list(range(len(present)))
    if PART['order'] == 'reversed':
        order = order[::-1]
    names = [n0, n1, n2, n3]
    mol = Molecule(force_field=ff)
    key_of = {}
    for key, idx in enumerate(order):
        canonical, element = present[idx]
        mol.add_node(key, atomname=names[idx], element=element, resname=PART['block'], resid=1, chain='A', atomid=key + 1)
        key_of[canonical] = key
    for a, b in spec['edges']:
        if a in key_of and b in key_of:
            mol.add_edge(key_of[a], key_of[b])
    extra_key = None
    if PART['extra']:
        extra_key = len(order)
        mol.add_node(extra_key, atomname='OXT', element='O', resname=PART['block'], resid=1, chain='A', atomid=extra_key + 1)
        mol.add_edge(extra_key, key_of[atoms[0][0]] if atoms[0][0] in key_of else key_of[atoms[1][0]])
    mol_elements = {k: mol.nodes[k]['element'] for k in mol.nodes}
    mol_edges = {frozenset(e) for e in mol.edges}
    system = System(force_field=ff)
    system.add_molecule(mol)
    rg.RepairGraph(include_graph=False).run_system(system)
    out = system.molecules[0]
    # ---- oracle
    flagged = [k for k in out.nodes if out.nodes[k].get('PTM_atom')]
    recognised = [k for k in out.nodes if not out.nodes[k].get('PTM_atom')]
    got_names = [out.nodes[k]['atomname'] for k in recognised]
    if len(set(got_names)) != len(got_names):
        return 'canonical names of recognised atoms are not unique'
    canon = {a: e for a, e in atoms}
    for k in recognised:
        name = out.nodes[k]['atomname']
        if name not in canon:
            return 'a recognised atom carries a name that is not in the block'
        if out.nodes[k].get('element') != canon[name]:
            return 'name assignment is not element-preserving'
    name_to_key = {out.nodes[k]['atomname']: k for k in recognised}
    for a, b in itertools.combinations([a for a, _ in atoms], 2):
        if a in name_to_key and b in name_to_key:
            in_block = (a, b) in spec['edges'] or (b, a) in spec['edges']
            if out.has_edge(name_to_key[a], name_to_key[b]) != in_block:
                return 'name assignment is not a bond-preserving embedding into the block / rebuilt atom not bonded as in the block'
    if set(name_to_key) != set(canon):
        return 'a block atom is still missing after repair'
    with no_tracing():
        best = _largest_common(spec, [(k, mol_elements[k]) for k in mol_elements], mol_edges)
    if len(flagged) != len(mol_elements) - best:
        return 'atoms marked unrecognised are not exactly those beyond a largest possible match'
    if missing is None and not PART['extra']:
        if len(out) != len(atoms):
            return 'complete residue changed size'
        # input atoms keep their identity: element of every input key preserved
        for canonical, key in key_of.items():
            if out.nodes[key].get('element') != canon[canonical]:
                return 'atom element changed'
    return ok()


MENUS = {
    'five': [['K1', 'M1', 'X', 'M3', 'K2'], ['K2', 'X', 'M1', 'K1', 'M3'], ['a', 'b', 'c', 'd', 'e']],
    'amide': [['CA', 'C', 'O1', 'N2'], ['C', 'CA', 'N2', 'O1'], ['X', 'O2', 'CA', 'zz']],
    'carboxyl': [['CA', 'C', 'O1', 'O2'], ['C', 'CA', 'O2', 'O1'], ['X', 'O2', 'CA', 'zz']],
    'branched': [['N', 'CA', 'CB', 'C'], ['CA', 'N', 'C', 'CB'], ['C', 'q', 'N', 'N']],
    'ring': [['C1', 'C2', 'N3', 'C4'], ['C4', 'N3', 'C2', 'C1'], ['a', 'a', 'C1', 'b']],
}


def _fixed(block, menu, missing):
    gone = missing if isinstance(missing, list) else [missing]
    names = [n for n, (atom, _) in zip(MENUS[block][menu], BLOCKS[block]['atoms']) if atom not in gone]
    return names


def check_two_residues(name: str) -> str:
    """
    pre: 1 <= len(name) <= 2
    post: _ == ''
    """
    # a symmetric residue followed by one with the same labelled skeleton but other elements, names scrambled so that both
    # sort to the same integer labels: the second must still come back complete and unflagged
    from vermouth.molecule import Molecule
    from vermouth.system import System
    rg = install()
    ff = force_field()
    first, second = PART['pair']
    mol = Molecule(force_field=ff)
    key = 0
    per_res = []
    for resid, block in ((1, first), (2, second)):
        spec = BLOCKS[block]
        keys = {}
        for idx, (atom, element) in enumerate(spec['atoms']):
            label = 'X%d' % (idx + 1)
            if resid == PART['sym_res'] and idx == PART['sym_atom']:
                label = name
            mol.add_node(key, atomname=label, element=element, resname=block, resid=resid, chain='A', atomid=key + 1)
            keys[atom] = key
            key += 1
        for a, b in spec['edges']:
            mol.add_edge(keys[a], keys[b])
        per_res.append((block, keys))
    mol.add_edge(per_res[0][1][BLOCKS[first]['atoms'][0][0]], per_res[1][1][BLOCKS[second]['atoms'][0][0]])
    system = System(force_field=ff)
    system.add_molecule(mol)
    rg.RepairGraph(include_graph=False).run_system(system)
    out = system.molecules[0]
    if len(out) != key:
        return 'atoms were added to or removed from complete residues'
    for block, keys in per_res:
        for atom, k in keys.items():
            if out.nodes[k].get('PTM_atom'):
                return 'an atom of a complete (scrambled) residue was marked unrecognised'
        names = sorted(out.nodes[k]['atomname'] for k in keys.values())
        if names != sorted(a for a, _ in BLOCKS[block]['atoms']):
            return 'a complete residue did not come back canonically named'
        for atom, k in keys.items():
            if dict(BLOCKS[block]['atoms'])[out.nodes[k]['atomname']] != out.nodes[k]['element']:
                return 'name assignment is not element-preserving'
    return ok()


REQUESTS = [None, ['none'], ['ME'], ['none', 'ME'], ['ME', 'none'], ['none', 'ME', 'none']]


def _repair_with_request(request, name, with_methyl):
    from vermouth.molecule import Molecule
    from vermouth.system import System
    rg = install()
    ff = force_field()
    spec = BLOCKS['carboxyl']
    mol = Molecule(force_field=ff)
    keys = {}
    for key, (atom, element) in enumerate(spec['atoms']):
        mol.add_node(key, atomname=atom, element=element, resname='carboxyl', resid=1, chain='A', atomid=key + 1)
        keys[atom] = key
    for a, b in spec['edges']:
        mol.add_edge(keys[a], keys[b])
    if with_methyl:
        mol.add_node(4, atomname=name, element='C', resname='carboxyl', resid=1, chain='A', atomid=5)
        mol.add_edge(4, keys['CA'])
    if request is not None:
        for key in mol.nodes:
            mol.nodes[key]['modification'] = list(request)
    system = System(force_field=ff)
    system.add_molecule(mol)
    rg.RepairGraph(include_graph=False).run_system(system)
    out = system.molecules[0]
    atoms = sorted((out.nodes[k]['atomname'], out.nodes[k].get('element'), bool(out.nodes[k].get('PTM_atom'))) for k in out.nodes)
    names = {k: out.nodes[k]['atomname'] for k in out.nodes}
    edges = sorted(tuple(sorted((names[a], names[b]))) for a, b in out.edges)
    return atoms, edges


def check_requested(name: str) -> str:
    """
    pre: 1 <= len(name) <= 2
    post: _ == ''
    """
    return requested_impl(name)


def requested_impl(name):
    # (no contract here: CrossHair enforces the contracts of callees, and the C19 check calls this too)
    # a requested modification list: 'none' entries are no-ops wherever they stand; with the modification requested the
    # residue ends up with exactly the atoms of block + modification, bonded as declared
    request = REQUESTS[PART['request']]
    got = _repair_with_request(request, name, PART['with_methyl'])
    effective = [m for m in (request or []) if m != 'none']
    if request is None:
        return ok()            # covered by check_repair
    reference = _repair_with_request(effective or ['none'], name, PART['with_methyl'])
    if got != reference:
        return "a 'none' entry in the modification request changed the repaired residue"
    atoms, edges = got
    names = sorted(a[0] for a in atoms)
    want = ['C', 'CA', 'O1', 'O2'] + (['CM'] if effective else [])
    if names != sorted(want):
        return 'after repair the residue does not have exactly the atoms of the block plus the requested modification (surplus atoms removed)'
    if effective and ('CA', 'CM') not in edges:
        return 'the atom of the requested modification is not bonded as declared'
    return ok()


def warmup():
    global PART
    saved = PART
    for block in [b for b in BLOCKS if len(BLOCKS[b]['atoms']) == 4]:
        for missing in (None, BLOCKS[block]['atoms'][3][0]):
            PART = {'block': block, 'order': 'reversed', 'missing': missing, 'extra': missing is None, 'sym': [1],
                    'fixed': _fixed(block, 2, missing)}
            args = list(PART['fixed']) + [''] * (4 - len(PART['fixed']))
            args[1] = 'O2'
            check_repair(*args)
    PART = {'pair': ['carboxyl', 'amide'], 'sym_res': 2, 'sym_atom': 3}
    check_two_residues('X4')
    for req in range(len(REQUESTS)):
        PART = {'request': req, 'with_methyl': req % 2 == 0}
        check_requested('CM')
    PART = saved


def selftest(seed):
    import random
    global PART
    rng = random.Random(seed)
    runs, failures = 0, []
    pool = ['CA', 'C', 'O1', 'O2', 'N', 'CB', 'C1', 'C2', 'N3', 'C4', 'X', 'zz', 'A1', '9']
    for _ in range(150):
        block = rng.choice([b for b in BLOCKS if len(BLOCKS[b]['atoms']) == 4])
        missing = rng.choice([None, None] + [a for a, _ in BLOCKS[block]['atoms']])
        fixed = _fixed(block, rng.randrange(3), missing)
        n = len(fixed)
        sym = rng.sample(range(n), rng.randint(1, 2))
        names = [rng.choice(pool) if i in sym else fixed[i] for i in range(n)] + [''] * (4 - n)
        PART = {'block': block, 'order': rng.choice(['identity', 'reversed']), 'missing': missing, 'extra': rng.random() < 0.3,
                'sym': sym, 'fixed': fixed}
        res = check_repair(*names)
        runs += 1
        if res != ok():
            failures.append('check_repair%r %r -> %s' % (tuple(names), PART, res))
    for req in range(len(REQUESTS)):
        for wm in (False, True):
            PART = {'request': req, 'with_methyl': wm}
            res = check_requested(rng.choice(['CM', 'X', 'O1']))
            runs += 1
            if res != ok():
                failures.append('check_requested %r -> %s' % (PART, res))
    for pair in (['carboxyl', 'amide'], ['amide', 'carboxyl'], ['carboxyl', 'carboxyl']):
        PART = {'pair': pair, 'sym_res': 2, 'sym_atom': 3}
        res = check_two_residues(rng.choice(['X4', 'A', 'zz']))
        runs += 1
        if res != ok():
            failures.append('check_two_residues %r -> %s' % (pair, res))
    return {'runs': runs, 'failures': failures[:3]}


def cases(tier):
    out = []
    blocks = ['carboxyl'] if tier == 'quick' else [b for b in BLOCKS if len(BLOCKS[b]['atoms']) == 4]
    for block in blocks:
        atoms = BLOCKS[block]['atoms']
        for order in ('identity', 'reversed'):
            for missing in (None, atoms[3][0], atoms[0][0]):
                for extra in (False, True):
                    if tier == 'quick' and extra and missing is not None:
                        continue
                    for menu in range(3):
                        fixed = _fixed(block, menu, missing)
                        n = len(fixed)
                        syms = [[i] for i in range(n)]
                        if tier == 'thorough' and block == 'carboxyl' and menu == 0 and missing is None and not extra:
                            syms += [list(p) for p in itertools.combinations(range(n), 2)]
                        for sym in syms:
                            out.append({'fn': 'check_repair',
                                        'part': {'block': block, 'order': order, 'missing': missing, 'extra': extra, 'sym': sym, 'fixed': fixed},
                                        'label': 'repair[%s %s missing=%s extra%d names=%s sym%s]' % (block, order, missing, extra, ','.join(fixed), sym),
                                        'timeout': 900, 'path_timeout': 60, 'twin': menu == 0 and sym == [0]})
    # two adjacent block atoms missing together, each with another known neighbour (ring)
    ring = BLOCKS['ring']['atoms']
    for gone in (['C2', 'N3'], ['N3', 'C4'], ['C1', 'C2']):
        for order in ('identity', 'reversed'):
            fixed = _fixed('ring', 0, gone)
            for sym in ([0], [1]):
                out.append({'fn': 'check_repair', 'part': {'block': 'ring', 'order': order, 'missing': gone, 'extra': False, 'sym': sym, 'fixed': fixed},
                            'label': 'repair[ring %s missing=%s sym%s]' % (order, '+'.join(gone), sym), 'timeout': 900, 'path_timeout': 60})
    # three atoms missing of which the first and the third are bonded to each other and to known atoms (rebuilt in one pass)
    for order in ('identity', 'reversed'):
        for menu in (0, 1):
            gone = ['M1', 'X', 'M3']
            fixed = _fixed('five', menu, gone)
            for sym in ([0], [1]):
                out.append({'fn': 'check_repair', 'part': {'block': 'five', 'order': order, 'missing': gone, 'extra': False, 'sym': sym, 'fixed': fixed},
                            'label': 'repair[five %s missing=M1+X+M3 names=%s sym%s]' % (order, ','.join(fixed), sym), 'timeout': 900, 'path_timeout': 60})
    for req in range(len(REQUESTS)):
        for wm in (False, True):
            out.append({'fn': 'check_requested', 'part': {'request': req, 'with_methyl': wm},
                        'label': 'requested[%s methyl%d]' % (REQUESTS[req], wm), 'timeout': 900, 'path_timeout': 60, 'twin': req == 2})
    for pair in (['carboxyl', 'amide'], ['amide', 'carboxyl'], ['carboxyl', 'carboxyl']):
        for sym_res in (1, 2):
            for sym_atom in (0, 3):
                out.append({'fn': 'check_two_residues', 'part': {'pair': pair, 'sym_res': sym_res, 'sym_atom': sym_atom},
                            'label': 'two-residues[%s res%d atom%d]' % ('+'.join(pair), sym_res, sym_atom), 'timeout': 900, 'path_timeout': 60,
                            'twin': sym_res == 1 and sym_atom == 0})
    return out
