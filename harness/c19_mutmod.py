"""C19 - mutation and modification requests hit exactly the residues they name.

Real code executed symbolically (CrossHair): parse_residue_spec, residue_matches, _terminal_matches, _subdict,
_resiter, annotate_modifications, AnnotateMutMod.run_system / run_molecule (make_residue_graph included in (c)).
"""
import itertools

from engine.common import ok, open_findings, RecLogger, no_tracing

PART = {}

import harness.c04_repair as _C04      # noqa: E402  (shared RepairGraph harness; imported outside tracing)

META = {
    'engine': 'E1 CrossHair 0.0.110 + z3',
    'functions': ['vermouth.processors.annotate_mut_mod.parse_residue_spec', 'residue_matches', '_terminal_matches',
                  '_subdict', '_resiter', 'annotate_modifications', 'AnnotateMutMod.run_system', 'AnnotateMutMod.run_molecule',
                  'vermouth.graph_utils.make_residue_graph (flow harness)',
                  'vermouth.processors.repair_graph.RepairGraph / _get_reference_residue / _patch_modification (requested modifications)'],
    'bounds': {
        'quick': 'parser: chain len<=2, residue name len<=3 (ASCII letters/digits), number in windows of integers; matcher: '
                 'residue graphs linear-3 / star-4 / single / non-protein with all residue numbers and the requested '
                 'number unbounded integers, chain and residue name symbolic strings len<=2; flow: 3-molecule system, '
                 'lists of <= 2 requests, requested residue numbers in -1..4 (the system has residues 1..3), chain/name/target selectors',
        'thorough': 'parser name len<=4, wider windows; flow: lists of 3 requests',
    },
    'stubs': ['annotate_mut_mod.LOGGER -> recorder of (level, type) that never formats (message formatting concretises)'],
    'assumptions': ['no residue is literally called nter or cter', 'nter/cter requests carry no residue number (documented as ignored)',
                    'specification alphabet: ASCII letters and digits; chain has no "-", residue name no "#"',
                    'matcher harness builds the residue graph directly (make_residue_graph hashes residue identity); the '
                    'flow harness runs make_residue_graph on concrete residue identities'],
    'outside': ['mutations consumed by RepairGraph (only requested modification lists are encoded, via the C04 harness)', 'insertion codes in specifications (the grammar has none)'],
}


# ------------------------------------------------------------------------------------ (a) parser
def spec_alphabet(chain: str, name: str) -> bool:
    for ch in chain:
        if ch not in 'A1':
            return False
    for ch in name:
        if ch not in 'AB12':
            return False
    return True


def check_parse_hash(chain: str, name: str, number: int) -> str:
    """
    pre: len(chain) <= 1 and len(name) <= PART['namelen']
    pre: spec_alphabet(chain, name)
    pre: PART['lo'] <= number <= PART['hi']
    pre: PART['number'] or name == '' or not ('0' <= name[len(name) - 1] <= '9')
    post: _ == ''
    """
    # without '#', a name ending in digits is by the documented grammar a name followed by a number: excluded here
    from vermouth.processors.annotate_mut_mod import parse_residue_spec
    want = {}
    text = ''
    if PART['chain']:
        text += chain + '-'
        want['chain'] = chain
    text += name
    if name:
        want['resname'] = name
    if PART['number']:
        text += '#' + str(number)
        want['resid'] = number
    got = parse_residue_spec(text)
    if PART['chain'] and chain == '':
        del want['chain']          # '-NAME' : the grammar makes the chain optional; an empty chain is reported as absent or ''
        if got.get('chain', '') != '':
            return 'empty chain parsed as something else'
        got.pop('chain', None)
    if got != want:
        return 'chain-name#number not parsed into exactly the given parts'
    return ok()


def check_parse_plain(chain: str, name: str, number: int) -> str:
    """
    pre: len(chain) <= 1 and 1 <= len(name) <= PART['namelen']
    pre: spec_alphabet(chain, name)
    pre: not ('0' <= name[len(name) - 1] <= '9')
    pre: PART['lo'] <= number <= PART['hi']
    post: _ == ''
    """
    from vermouth.processors.annotate_mut_mod import parse_residue_spec
    want = {'resname': name, 'resid': number}
    text = name + str(number)
    if PART['chain']:
        text = chain + '-' + text
        if chain:
            want['chain'] = chain
    got = parse_residue_spec(text)
    if PART['chain'] and not chain:
        if got.get('chain', '') != '':
            return 'empty chain parsed as something else'
        got.pop('chain', None)
    if got != want:
        return 'chain-namenumber (name not ending in a digit) not parsed into exactly the given parts'
    return ok()


def check_parse_number_only(number: int) -> str:
    """
    pre: PART['lo'] <= number <= PART['hi']
    post: _ == ''
    """
    from vermouth.processors.annotate_mut_mod import parse_residue_spec
    if parse_residue_spec(str(number)) != {'resid': number}:
        return 'bare number not parsed as a residue number'
    if parse_residue_spec('#' + str(number)) != {'resid': number}:
        return '#number not parsed as a residue number'
    if parse_residue_spec('A-' + str(number)) != {'chain': 'A', 'resid': number}:
        return 'chain-number not parsed'
    return ok()


# ------------------------------------------------------------------------------------ (b) matcher
GRAPHS = {
    # name: (number of residues, edges, protein flags)
    'lin3': (3, [(0, 1), (1, 2)], [True, True, True]),
    'star4': (4, [(0, 1), (0, 2), (0, 3)], [True, True, True, True]),
    'single': (1, [], [True]),
    'lipid2': (2, [(0, 1)], [False, False]),
    'mixed3': (3, [(0, 1), (1, 2)], [True, True, False]),
}


def build_residue_graph(name, resids, chains, resnames):
    import networkx as nx
    n, edges, protein = GRAPHS[name]
    graph = nx.Graph()
    for idx in range(n):
        inner = nx.Graph()
        inner.add_node(2 * idx, resname='ALA' if protein[idx] else 'POPC')
        inner.add_node(2 * idx + 1, resname='ALA' if protein[idx] else 'POPC')
        graph.add_node(idx, chain=chains[idx], resid=resids[idx], resname=resnames[idx], insertion_code='', graph=inner)
    graph.add_edges_from(edges)
    return graph


def names_ok(c0: str, c1: str, n0: str, n1: str, sc: str, sn: str) -> bool:
    for s in (c0, c1, n0, n1, sc, sn):
        if len(s) > 2:
            return False
    return True


def check_matcher(r0: int, r1: int, r2: int, r3: int, sresid: int, c0: str, c1: str, n0: str, n1: str,
                  sc: str, sn: str) -> str:
    """
    pre: names_ok(c0, c1, n0, n1, sc, sn)
    post: _ == ''
    """
    from vermouth.processors.annotate_mut_mod import residue_matches
    name = PART['graph']
    n, edges, protein = GRAPHS[name]
    resids = [r0, r1, r2, r3][:n]
    chains = [c0, c1, c0, c1][:n]
    resnames = [n0, n1, n1, n0][:n]
    graph = build_residue_graph(name, resids, chains, resnames)
    spec = {}
    kind = PART['kind']          # 'plain' | 'nter' | 'cter'
    if kind != 'plain':
        spec['resname'] = kind
    elif PART['resname']:
        spec['resname'] = sn
    if PART['chain']:
        spec['chain'] = sc
    if PART['resid'] and kind == 'plain':
        spec['resid'] = sresid
    for idx in ([PART['res']] if 'res' in PART else range(n)):
        got = residue_matches(dict(spec), graph, idx)
        if kind == 'plain':
            want = True
            if 'resname' in spec and resnames[idx] != sn:
                want = False
            if 'chain' in spec and chains[idx] != sc:
                want = False
            if 'resid' in spec and resids[idx] != sresid:
                want = False
        else:
            neighbours = [b if a == idx else a for a, b in edges if idx in (a, b)]
            want = len(neighbours) == 1 and protein[idx]
            if want:
                other = resids[neighbours[0]]
                want = resids[idx] < other if kind == 'nter' else resids[idx] > other
            if want and 'chain' in spec and chains[idx] != sc:
                want = False
        if bool(got) != bool(want):
            return 'residue_matches disagrees with the specification semantics'
    return ok()


# ------------------------------------------------------------------------------------ (c) flow
def _system():
    from vermouth.forcefield import ForceField
    from vermouth.molecule import Molecule, Block, Link
    from vermouth.system import System
    ff = ForceField(name='c19')
    for name in ('ALA', 'GLY', 'LYS'):
        block = Block(force_field=ff)
        block.name = name
        ff.blocks[name] = block
    mod = Link()
    mod.name = 'N-ter'
    ff.modifications['N-ter'] = mod
    system = System(force_field=ff)
    layout = [('A', [('ALA', 1), ('GLY', 2), ('ALA', 3)]), ('B', [('GLY', 1), ('LYS', 2)]), ('C', [('POPC', 1)])]
    for chain, residues in layout:
        mol = Molecule(force_field=ff)
        key = 0
        firsts = []
        for resname, resid in residues:
            firsts.append(key)
            for atom in ('N', 'CA'):
                mol.add_node(key, atomname=atom, resname=resname, resid=resid, chain=chain)
                key += 1
            mol.add_edge(key - 2, key - 1)
        for a, b in zip(firsts, firsts[1:]):
            mol.add_edge(a + 1, b)
        system.molecules.append(mol)
    return system, layout


RESNAMES = ['ALA', 'nter', 'XXX', 'GLY', 'cter', 'LYS']
CHAINS = ['Z', 'A', 'B']
TARGETS = {'mutation': ['ALA', 'QQQ', 'none', 'LYS'], 'modification': ['N-ter', 'QQQ', 'none']}


def _request_matches(spec, chain, residues, ridx):
    resname, resid = residues[ridx]
    protein = resname in ('ALA', 'GLY', 'LYS')
    want_name = spec.get('resname')
    if want_name in ('nter', 'cter'):
        if len(residues) < 2 or ridx not in (0, len(residues) - 1) or not protein:
            return False
        other = residues[1][1] if ridx == 0 else residues[-2][1]
        if want_name == 'nter' and not resid < other:
            return False
        if want_name == 'cter' and not resid > other:
            return False
        return 'chain' not in spec or spec['chain'] == chain
    if want_name is not None and want_name != resname:
        return False
    if 'chain' in spec and spec['chain'] != chain:
        return False
    if 'resid' in spec and spec['resid'] != resid:
        return False
    return True


def flow_pre(k0: int, n0: int, c0: int, t0: int, k1: int, n1: int, c1: int, t1: int,
             k2: int, n2: int, c2: int, t2: int) -> bool:
    nreq = PART['nreq']
    quads = [(k0, n0, c0, t0), (k1, n1, c1, t1), (k2, n2, c2, t2)]
    for idx, (k, n, c, t) in enumerate(quads):
        if PART.get('k%d' % idx) is not None and k != PART['k%d' % idx]:
            return False
        if PART.get('n%d' % idx) is not None and n != PART['n%d' % idx]:
            return False
        if PART.get('c%d' % idx) is not None and c != PART['c%d' % idx]:
            return False
        if idx >= nreq:
            if (k, n, c, t) != (0, 0, 0, 0):
                return False
            continue
        small = PART.get('small', False)     # reduced menus for multi-request lists
        if not (0 <= k <= 1 and -1 <= n < (3 if small else len(RESNAMES)) and -1 <= c < (1 if small else len(CHAINS))):
            return False
        if small and n == -1:
            return False
        if not 0 <= t < (2 if small else len(TARGETS['mutation' if k == 0 else 'modification'])):
            return False
    return True


def check_flow(k0: int, n0: int, c0: int, t0: int, r0: int, k1: int, n1: int, c1: int, t1: int, r1: int,
               k2: int, n2: int, c2: int, t2: int, r2: int) -> str:
    """
    pre: flow_pre(k0, n0, c0, t0, k1, n1, c1, t1, k2, n2, c2, t2)
    pre: -1 <= r0 <= 4 and -1 <= r1 <= 4 and -1 <= r2 <= 4
    post: _ == ''
    """
    import vermouth.processors.annotate_mut_mod as amm
    nreq = PART['nreq']
    with no_tracing():        # the input system is concrete; only the processing is executed symbolically
        system, layout = _system()
    requests = []
    for k, n, c, t, r in [(k0, n0, c0, t0, r0), (k1, n1, c1, t1, r1), (k2, n2, c2, t2, r2)][:nreq]:
        kind = 'mutation' if k == 0 else 'modification'
        spec = {}
        if n >= 0:
            spec['resname'] = RESNAMES[n]
        if c >= 0:
            spec['chain'] = CHAINS[c]
        if PART['with_resid'] and not (n >= 0 and RESNAMES[n] in ('nter', 'cter')):
            spec['resid'] = r
        requests.append((kind, spec, TARGETS[kind][t]))
    recorder = RecLogger()
    saved = amm.LOGGER
    amm.LOGGER = recorder
    try:
        proc = amm.AnnotateMutMod()
        proc.modifications = [(spec, target) for kind, spec, target in requests if kind == 'modification']
        proc.mutations = [(spec, target) for kind, spec, target in requests if kind == 'mutation']
        error = False
        try:
            proc.run_system(system)
        except NameError:
            error = True
    finally:
        amm.LOGGER = saved
    # ---- oracle
    ordered = [q for q in requests if q[0] == 'modification'] + [q for q in requests if q[0] == 'mutation']
    expect_error = False
    matched_any = [False] * len(ordered)
    marks = {}
    for midx, (chain, residues) in enumerate(layout):
        for qidx, (kind, spec, target) in enumerate(ordered):
            for ridx in range(len(residues)):
                if _request_matches(spec, chain, residues, ridx):
                    matched_any[qidx] = True
                    if target == 'QQQ':
                        expect_error = True
                    marks.setdefault((midx, ridx, kind), []).append(target)
    if expect_error:
        return ok() if error else 'request with an unknown target block/modification did not raise NameError'
    if error:
        return 'NameError although every matching request names a known target'
    for midx, (chain, residues) in enumerate(layout):
        mol = system.molecules[midx]
        for key in mol.nodes:
            ridx = key // 2
            for kind in ('mutation', 'modification'):
                have = mol.nodes[key].get(kind)
                want = marks.get((midx, ridx, kind))
                if have != want:
                    return 'atoms marked differ from the residues the requests name'
    unmatched = sum(1 for flag in matched_any if not flag)
    warnings = len(recorder.types(levels=('WARNING',)))
    if unmatched == 0 and warnings:
        return 'warning although every request matched a residue'
    if warnings < unmatched:
        return 'a request that matches no residue in the whole system was not reported'
    return ok()


def check_requested(name: str) -> str:
    """
    pre: 1 <= len(name) <= 2
    post: _ == ''
    """
    # last clause of the property: after repair the marked residue has the atoms of the requested modification, surplus
    # atoms removed; 'none' entries are no-ops.  Shares the RepairGraph harness of C04 (ISMAGS native under NoTracing).
    _C04.PART = PART
    return _C04.requested_impl(name)


def warmup():
    global PART
    saved = PART
    import harness.c04_repair as c04
    c04.warmup()
    PART = {'chain': True, 'number': True, 'namelen': 3, 'lo': 0, 'hi': 50}
    check_parse_hash('A', 'LY5', 12)
    PART = {'chain': True, 'namelen': 3, 'lo': 0, 'hi': 50}
    check_parse_plain('A', 'LYS', 12)
    PART = {'lo': 0, 'hi': 50}
    check_parse_number_only(7)
    for g in GRAPHS:
        PART = {'graph': g, 'kind': 'nter', 'chain': True, 'resid': False, 'resname': True}
        check_matcher(1, 2, 3, 4, 2, 'A', 'B', 'AA', 'BB', 'A', 'AA')
        PART = {'graph': g, 'kind': 'plain', 'chain': True, 'resid': True, 'resname': True}
        check_matcher(1, 2, 3, 4, 2, 'A', 'B', 'AA', 'BB', 'A', 'AA')
    PART = {'nreq': 2, 'with_resid': True}
    check_flow(0, 0, 0, 0, 1, 1, 3, -1, 0, 1, 0, 0, 0, 0, 0)
    PART = saved


def selftest(seed):
    import random
    global PART
    rng = random.Random(seed)
    runs, failures = 0, []
    for _ in range(200):
        PART = {'graph': rng.choice(list(GRAPHS)), 'kind': rng.choice(['plain', 'nter', 'cter']),
                'chain': rng.random() < 0.5, 'resid': rng.random() < 0.5, 'resname': rng.random() < 0.5}
        args = [rng.randint(0, 5) for _ in range(5)] + [rng.choice(['A', 'B', '']) for _ in range(2)] + \
               [rng.choice(['AA', 'B', 'C']) for _ in range(2)] + [rng.choice(['A', 'B']), rng.choice(['AA', 'B'])]
        res = check_matcher(*args)
        runs += 1
        if res != ok():
            failures.append('check_matcher%r %r -> %s' % (tuple(args), PART, res))
    carve = 'C19-unmatched-unreported' in open_findings('C19')
    for _ in range(200):
        PART = {'nreq': rng.randint(1, 3), 'with_resid': rng.random() < 0.5}
        args = []
        for idx in range(3):
            if idx < PART['nreq']:
                k = rng.randint(0, 1)
                args += [k, rng.randint(-1, 5), rng.randint(-1, 2), rng.randrange(4 if k == 0 else 3), rng.randint(0, 4)]
            else:
                args += [0, 0, 0, 0, 0]
        res = check_flow(*args)
        runs += 1
        if res != ok() and not (carve and 'not reported' in res):
            failures.append('check_flow%r %r -> %s' % (tuple(args), PART, res))
    return {'runs': runs, 'failures': failures[:3]}


def cases(tier):
    out = []
    namelen = 2 if tier == 'quick' else 3
    windows = [(0, 2), (9, 11), (99, 101)] if tier == 'quick' else [(0, 12), (98, 102), (998, 1002), (9998, 10002)]
    for lo, hi in windows:
        for chain, number in itertools.product((False, True), repeat=2):
            out.append({'fn': 'check_parse_hash', 'part': {'chain': chain, 'number': number, 'namelen': namelen, 'lo': lo, 'hi': hi},
                        'label': 'parse#[c%d n%d %d..%d]' % (chain, number, lo, hi), 'timeout': 600, 'path_timeout': 30,
                        'twin': lo == 0})
        for chain in (False, True):
            out.append({'fn': 'check_parse_plain', 'part': {'chain': chain, 'namelen': namelen, 'lo': lo, 'hi': hi},
                        'label': 'parse[c%d %d..%d]' % (chain, lo, hi), 'timeout': 600, 'path_timeout': 30, 'twin': lo == 0})
        out.append({'fn': 'check_parse_number_only', 'part': {'lo': lo, 'hi': hi}, 'label': 'parse-number[%d..%d]' % (lo, hi),
                    'timeout': 300})
    for graph in GRAPHS:
        for kind in ('plain', 'nter', 'cter'):
            for chain in (False, True):
                variants = [(False, False)] if kind != 'plain' else list(itertools.product((False, True), repeat=2))
                for resid, resname in variants:
                    for res in range(GRAPHS[graph][0]):
                        if tier == 'quick' and not chain and res > 0:
                            continue        # without a chain part only the first residue is run in the quick tier
                        out.append({'fn': 'check_matcher',
                                    'part': {'graph': graph, 'kind': kind, 'chain': chain, 'resid': resid, 'resname': resname,
                                             'res': res},
                                    'label': 'matcher[%s %s c%d r%d n%d res%d]' % (graph, kind, chain, resid, resname, res),
                                    'timeout': 300, 'path_timeout': 30, 'twin': graph == 'lin3' and res == 0})
    import harness.c04_repair as c04
    for req in range(1, len(c04.REQUESTS)):
        # the surplus atom carries the symbolic name; the vacuity twin of this function lives in the C04 check
        out.append({'fn': 'check_requested', 'part': {'request': req, 'with_methyl': True},
                    'label': 'repair-requested[%s]' % (c04.REQUESTS[req],), 'timeout': 900, 'path_timeout': 60, 'twin': False})
    for k in (0, 1):
        for n in range(-1, len(RESNAMES)):
            for c in range(-1, len(CHAINS)):
                out.append({'fn': 'check_flow', 'part': {'nreq': 1, 'with_resid': True, 'k0': k, 'n0': n, 'c0': c},
                            'label': 'flow[1 req k%d n%d c%d resid]' % (k, n, c), 'timeout': 400, 'path_timeout': 60,
                            'twin': n == 0 and c == 1})
    for k in (0, 1):
        for n in range(-1, len(RESNAMES)):
            out.append({'fn': 'check_flow', 'part': {'nreq': 1, 'with_resid': False, 'k0': k, 'n0': n},
                        'label': 'flow[1 req k%d n%d]' % (k, n), 'timeout': 400, 'path_timeout': 60})
    for k0 in (0, 1):
        for n0 in range(3):
            for k1 in (0, 1):
                out.append({'fn': 'check_flow', 'part': {'nreq': 2, 'with_resid': False, 'small': True, 'k0': k0, 'n0': n0, 'k1': k1},
                            'label': 'flow[2 req k%d n%d k%d]' % (k0, n0, k1), 'timeout': 600, 'path_timeout': 60,
                            'twin': n0 == 0})
                if tier == 'thorough':
                    out.append({'fn': 'check_flow', 'part': {'nreq': 2, 'with_resid': True, 'small': True, 'k0': k0, 'n0': n0, 'k1': k1},
                                'label': 'flow[2 req resid k%d n%d k%d]' % (k0, n0, k1), 'timeout': 1500, 'path_timeout': 60})
                    for n1 in range(3):
                        out.append({'fn': 'check_flow', 'part': {'nreq': 3, 'with_resid': False, 'small': True, 'k0': k0, 'n0': n0,
                                                                 'k1': k1, 'n1': n1},
                                    'label': 'flow[3 req k%d n%d k%d n%d]' % (k0, n0, k1, n1), 'timeout': 1500, 'path_timeout': 60})
    return out
