"""C13 - force-field, topology and mapping files load to exactly what they declare.

Real code executed symbolically (CrossHair): parser_utils._tokenize, ffinput._treat_atom_prefix / _split_node_key
(via the public helpers), ffinput.read_ff (FFDirector: parse_header, finalize_section, section parsers),
gmx.itp_read.read_itp (ITPDirector).
"""
import itertools

from engine.common import ok, no_tracing, open_findings, concretize

PART = {}

META = {
    'engine': 'E1 CrossHair 0.0.110 + z3',
    'functions': ['vermouth.parser_utils._tokenize', 'vermouth.ffinput._treat_atom_prefix', 'vermouth.ffinput.read_ff',
                  'FFDirector.parse_header', 'FFDirector.finalize_section', 'vermouth.gmx.itp_read.read_itp', 'vermouth.map_input._compute_weights'],
    'bounds': {
        'quick': 'tokenizer: every line of length <= 5 over the alphabet the tokenizer distinguishes {a, space, {, }, -}; atom '
                 'prefixes: prefix kind x length 1..3 with symbolic explicit order in -4..4 (the code renders it as a run of +/- characters) and base name len<=2; '
                 '.ff files assembled from <= 3 top-level sections chosen by symbolic selectors out of 7 snippets (block, 2 links, '
                 'modification, macros-using link, citations, variables) with an optional injected fault; .itp files with 2 '
                 'molecule types of symbolic atom counts (1..3) whose interactions refer to atoms by symbolic index',
        'thorough': 'tokenizer length <= 6; .ff files of <= 4 sections',
    },
    'stubs': ['ffinput LOGGER untouched (no symbolic value is ever logged)'],
    'assumptions': ['attribute tokens go through json.loads (C boundary) and are concrete snippets',
                    'the file-level oracle knows what every snippet declares (atoms, edges, interactions, non-edges, patterns, '
                    'features) and requires each declared object exactly once, in file order'],
    'outside': ['the shipped force-field data files', '.map/.mapping file grammar beyond the weight computation'],
}

ALPHABET = 'a {}-'


class Unbalanced(Exception):
    pass


def ref_tokens(line):
    """Reference tokenizer written from the docstring: whitespace separates, a {...} group (nested braces
    matched) is one token and may touch its neighbours, a brace without partner is an error."""
    seps = ' \t\n'
    tokens = []
    i, n = 0, len(line)
    while i < n:
        if line[i] in seps:
            i += 1
            continue
        if line[i] == '{':
            depth = 0
            j = i
            while j < n:
                if line[j] == '{':
                    depth += 1
                elif line[j] == '}':
                    depth -= 1
                    if depth == 0:
                        break
                j += 1
            if j >= n:
                raise Unbalanced()
            tokens.append(line[i:j + 1])
            i = j + 1
        else:
            j = i
            while j < n and line[j] not in seps and line[j] != '{':
                if line[j] == '}':
                    raise Unbalanced()
                j += 1
            tokens.append(line[i:j])
            i = j
    return tokens


def in_alphabet(line: str) -> bool:
    for ch in line:
        if ch not in ALPHABET:
            return False
    return True


def check_tokenize(line: str) -> str:
    """
    pre: len(line) == PART['len']
    pre: in_alphabet(line)
    post: _ == ''
    """
    from vermouth.parser_utils import _tokenize
    line = PART.get('prefix', '') + line
    try:
        got = _tokenize(line)
    except IOError:
        got = None
    try:
        want = ref_tokens(line)
    except Unbalanced:
        want = None
    if want is None and got is not None:
        return 'a line with unbalanced braces was tokenized instead of rejected'
    if want is not None and got is None:
        return 'a well-formed line was rejected'
    if got != want:
        return 'tokens differ from the documented tokenization'
    return ok()


PREFIX_ORDER = {'+': lambda n: n, '-': lambda n: -n, '>': lambda n: '>' * n, '<': lambda n: '<' * n, '*': lambda n: '*' * n}


def base_ok(base: str) -> bool:
    if not 1 <= len(base) <= 2:
        return False
    for ch in base:
        if ch not in 'AB1':
            return False
    return True


def check_prefix(explicit: int, base: str) -> str:
    """
    pre: base_ok(base)
    pre: -4 <= explicit <= 4
    post: _ == ''
    """
    from vermouth.ffinput import _treat_atom_prefix
    kind, n = PART['kind'], PART['n']
    implied = PREFIX_ORDER[kind](n)
    # the prefix alone
    key, attrs = _treat_atom_prefix(kind * n + base, {})
    if attrs.get('order') != implied or attrs.get('atomname') != base:
        return 'order prefix not translated to the order attribute'
    if key != kind * n + base:
        return 'prefixed node key changed'
    if PART['mode'] == 'attr':
        # the explicit attribute alone must mean the same as the prefix
        key2, attrs2 = _treat_atom_prefix(base, {'order': implied})
        if (key2, attrs2) != (key, attrs):
            return 'explicit order attribute and order prefix do not mean the same thing'
        return ok()
    # prefix and explicit numeric order together: accepted iff they agree
    try:
        key3, attrs3 = _treat_atom_prefix(kind * n + base, {'order': explicit})
    except IOError:
        if isinstance(implied, int) and explicit == implied:
            return 'consistent prefix and order rejected'
        return ok()
    if not (isinstance(implied, int) and explicit == implied):
        return 'contradiction between order prefix and explicit order accepted'
    if (key3, attrs3) != (key, attrs):
        return 'prefix plus matching explicit order gives a different node'
    return ok()


# ------------------------------------------------------------------------------------------ .ff files
SNIPPETS = {
    'block': dict(text='''[ moleculetype ]
GLY 1
[ atoms ]
1 P5 1 GLY BB 1 0.0
2 C1 1 GLY SC1 2 0.0 {"tag": "x"}
[ bonds ]
BB SC1 1 0.25 1000
#meta {"group": "g"}
1 2 2 0.3 500 {"comment": "c", "version": 1}
SC1 BB 3 0.4 50 {"group": "own"}
''', kind='block', name='GLY'),
    'block2': dict(text='''[ moleculetype ]
ALA 1
[ atoms ]
1 P4 1 ALA BB 1
[ position_restraints ]
BB 1 1000 1000 1000
''', kind='block', name='ALA'),
    'link1': dict(text='''[ link ]
[ bonds ]
BB +BB 1 0.35 1250
''', kind='link', sig=('bonds', ('BB', '+BB'), ('1', '0.35', '1250'))),
    'link2': dict(text='''[ link ]
resname "GLY"
[ features ]
scfix
[ angles ]
-BB BB +BB 2 127 20
[ !bonds ]
BB ++BB
[ non-edges ]
BB +SC1
[ patterns ]
-BB BB {"resname": "GLY"} +BB
''', kind='link', sig=('angles', ('-BB', 'BB', '+BB'), ('2', '127', '20'))),
    'macrolink': dict(text='''[ macros ]
FC 7500
[ link ]
[ bonds ]
SC1 >SC1 1 0.24 $FC
''', kind='link', sig=('bonds', ('SC1', '>SC1'), ('1', '0.24', '7500'))),
    'mod': dict(text='''[ modification ]
C-ter
[ atoms ]
BB {"element": "C", "PTM_atom": false}
O2 {"element": "O", "PTM_atom": true, "replace": {"atomname": "OXT"}}
[ edges ]
BB O2
''', kind='mod', name='C-ter'),
    'citations': dict(text='''[ citations ]
Martini
''', kind='citations'),
}
ORDERABLE = ['block', 'link1', 'link2', 'macrolink', 'mod', 'block2', 'citations']

FAULTS = {
    'unknown-section': '[ nonsense ]\nfoo\n',
    'undefined-atom': '[ moleculetype ]\nBAD 1\n[ atoms ]\n1 P5 1 BAD BB 1\n[ bonds ]\nBB XX 1 0.2 100\n',
    'duplicate-atom': '[ moleculetype ]\nBAD 1\n[ atoms ]\n1 P5 1 BAD BB 1\n2 P5 1 BAD BB 2\n',
    'unbalanced': '[ link ]\n[ bonds ]\nBB {"a": 1 +BB 1 0.2 100\n',
    'prefix-contradiction': '[ link ]\n[ bonds ]\nBB +BB {"order": -1} 1 0.2 100\n',
    'arity': '[ link ]\n[ angles ]\nBB +BB\n',
}


def selectors_ok(s0: int, s1: int, s2: int, s3: int, s4: int, fault_at: int) -> bool:
    count = PART['count']
    for idx, s in enumerate((s0, s1, s2, s3, s4)):
        if idx < count:
            if not 0 <= s < len(ORDERABLE):
                return False
        elif s != 0:
            return False
    pinned = PART.get('first')
    if pinned is not None and count and s0 != pinned:
        return False
    if PART.get('fault') is None:
        return fault_at == 0
    return 0 <= fault_at <= count


def check_ff_file(s0: int, s1: int, s2: int, s3: int, s4: int, fault_at: int) -> str:
    """
    pre: selectors_ok(s0, s1, s2, s3, s4, fault_at)
    post: _ == ''
    """
    from vermouth.forcefield import ForceField
    from vermouth.ffinput import read_ff
    count = PART['count']
    chosen = [ORDERABLE[s] for s in (s0, s1, s2, s3, s4)[:count]]
    parts = [SNIPPETS[name]['text'] for name in chosen]
    fault = PART.get('fault')
    if fault is not None:
        parts.insert(fault_at, FAULTS[fault])
    text = '\n'.join(parts)
    ff = ForceField(name='c13')
    try:
        read_ff(text.split('\n'), ff)
    except (IOError, KeyError, ValueError, IndexError) as exc:
        if fault is not None:
            return ok()
        return 'a well-formed file was rejected'
    if fault is not None:
        return 'a malformed file (%s) was loaded instead of rejected' % fault
    # ---- exactly once, in file order
    want_links = [SNIPPETS[name]['sig'] for name in chosen if SNIPPETS[name]['kind'] == 'link']
    got_links = []
    for link in ff.links:
        sigs = [(itype, tuple(i.atoms), tuple(i.parameters)) for itype, lst in link.interactions.items() for i in lst]
        if len(sigs) != 1:
            return 'a link does not carry exactly the one interaction it declares'
        got_links.append(sigs[0])
    if got_links != want_links:
        return 'links are not loaded exactly once each and in file order'
    want_blocks = []
    for name in chosen:
        if SNIPPETS[name]['kind'] == 'block' and SNIPPETS[name]['name'] not in want_blocks:
            want_blocks.append(SNIPPETS[name]['name'])
    if list(ff.blocks) != want_blocks:
        return 'blocks are not loaded once each in file order'
    want_mods = ['C-ter'] if 'mod' in chosen else []
    if list(ff.modifications) != want_mods:
        return 'modifications not loaded as declared'
    # ---- contents
    if 'GLY' in ff.blocks:
        block = ff.blocks['GLY']
        if list(block.nodes) != ['BB', 'SC1'] or block.nodes['SC1'].get('tag') != 'x' or block.nodes['BB'].get('atype') != 'P5':
            return 'block atoms/attributes differ from the declaration'
        bonds = [(tuple(i.atoms), tuple(i.parameters), i.meta) for i in block.interactions['bonds']]
        if bonds != [(('BB', 'SC1'), ('1', '0.25', '1000'), {}),
                     (('BB', 'SC1'), ('2', '0.3', '500'), {'group': 'g', 'comment': 'c', 'version': 1}),
                     (('SC1', 'BB'), ('3', '0.4', '50'), {'group': 'own'})]:      # per-line metadata wins over #meta
            return 'block interactions (parameters, per-line and #meta metadata, versions) differ from the declaration'
        if not block.has_edge('BB', 'SC1') or block.nrexcl != 1:
            return 'block edges / nrexcl differ from the declaration'
    if 'ALA' in ff.blocks:
        if [tuple(i.atoms) for i in ff.blocks['ALA'].interactions['position_restraints']] != [('BB',)]:
            return 'fixed-arity interaction loaded with the wrong atoms'
    for link in ff.links:
        if 'angles' in link.interactions:
            if link.features != {'scfix'} or [tuple(i.atoms) for i in link.removed_interactions.get('bonds', [])] != [('BB', '++BB')]:
                return 'link features / removal markers differ from the declaration'
            if len(link.non_edges) != 1 or link.non_edges[0][0] != 'BB' or link.non_edges[0][1].get('order') != 1:
                return 'link non-edges differ from the declaration'
            if len(link.patterns) != 1 or [k for k, _ in link.patterns[0]] != ['-BB', 'BB', '+BB']:
                return 'link patterns differ from the declaration'
            if any(link.nodes[n].get('resname') != 'GLY' for n in link.nodes):
                return 'link-wide attribute not applied to all atoms'
            if (link.nodes['-BB']['order'], link.nodes['+BB']['order']) != (-1, 1):
                return 'order prefixes not translated'
    if 'C-ter' in ff.modifications:
        mod = ff.modifications['C-ter']
        if set(mod.nodes) != {'BB', 'O2'} or not mod.has_edge('BB', 'O2') or mod.nodes['O2'].get('replace') != {'atomname': 'OXT'}:
            return 'modification differs from the declaration'
    return ok()


# ------------------------------------------------------------------------------------------ .itp files
def check_itp_file(n1: int, n2: int, a: int, b: int) -> str:
    """
    pre: n1 == PART['n1'] and n2 == PART['n2']
    pre: 1 <= a <= n2 + 1 and 1 <= b <= n2 + 1 and a != b
    post: _ == ''
    """
    from vermouth.forcefield import ForceField
    from vermouth.gmx.itp_read import read_itp
    lines = []
    names = ['ABCD'[:n1], 'WXYZ'[:n2]]
    for mname, atoms in zip(('M1', 'M2'), names):
        lines += ['[ moleculetype ]', '%s 1' % mname, '[ atoms ]']
        for idx, atom in enumerate(atoms, start=1):
            lines.append('%d P1 1 RES %s %d 0.0' % (idx, atom, idx))
        if mname == 'M2':
            lines += ['[ bonds ]', '%d %d 1 0.3 100' % (a, b)]
    ff = ForceField(name='c13itp')
    valid = a <= n2 and b <= n2
    try:
        read_itp(lines, ff)
    except (IOError, KeyError, IndexError):
        return ok() if not valid else 'a well-formed ITP was rejected'
    if not valid:
        return 'a bond referring to an undefined atom index was loaded'
    if list(ff.blocks) != ['M1', 'M2']:
        return 'molecule types not loaded once each in file order'
    if [ff.blocks['M1'].nodes[k]['atomname'] for k in ff.blocks['M1'].nodes] != list(names[0]) or \
            [ff.blocks['M2'].nodes[k]['atomname'] for k in ff.blocks['M2'].nodes] != list(names[1]):
        return 'atoms of a molecule type differ from the declaration'
    bonds = ff.blocks['M2'].interactions['bonds']
    if len(bonds) != 1:
        return 'interaction not loaded exactly once'
    got = [ff.blocks['M2'].nodes[k]['atomname'] for k in bonds[0].atoms]
    if got != [names[1][a - 1], names[1][b - 1]]:
        return 'interaction of the second molecule type attached to other atoms than declared'
    if 'bonds' in ff.blocks['M1'].interactions and ff.blocks['M1'].interactions['bonds']:
        return 'interaction leaked into another molecule type'
    return ok()


def check_weights(n_p: int, n_q: int, n_null: int) -> str:
    """
    pre: 0 <= n_p <= 3 and 0 <= n_q <= 3 and 0 <= n_null <= 2
    pre: n_p + n_q >= 1
    post: _ == ''
    """
    # backward-style .map line for atom A: target P written n_p times, Q n_q times, R marked null ('!R') n_null times;
    # atom B maps once to P.  Weights reflect the multiplicity (n / sum n) and '!' gives weight 0.
    n_p, n_q, n_null = concretize(n_p), concretize(n_q), concretize(n_null)      # multiplicities are list lengths: one value per path
    with no_tracing():          # everything is concrete now; native run (CrossHair's Counter/float proxies gave a non-replaying model)
        res = _weights_body(n_p, n_q, n_null)
    return res if res else ok()


def _weights_body(n_p, n_q, n_null):
    from vermouth.map_input import _compute_weights
    targets = ['P'] * n_p + ['Q'] * n_q + ['!R'] * n_null
    weights = _compute_weights({'A': targets, 'B': ['P']}, 'mol')
    total = n_p + n_q
    want = {}
    if n_p:
        want.setdefault('P', {})['A'] = n_p / total
    if n_q:
        want.setdefault('Q', {})['A'] = n_q / total
    want.setdefault('P', {})['B'] = 1.0
    if n_null:
        want.setdefault('R', {})['A'] = 0
    got = {k: dict(v) for k, v in weights.items()}
    if set(got) != set(want):
        return 'mapping weights name other particles than the line declares'
    for bead, atoms in want.items():
        if set(got[bead]) != set(atoms):
            return 'mapping weights attach other atoms to a particle than declared'
        for atom, w in atoms.items():
            if abs(got[bead][atom] - w) > 1e-9:
                return 'mapping weight does not reflect the multiplicity / null marker written'
    return ''


def warmup():
    global PART
    saved = PART
    PART = {'len': 4}
    check_tokenize('a{a}')
    PART = {'kind': '+', 'n': 2, 'mode': 'both'}
    check_prefix(2, 'BB')
    PART = {'count': 4, 'fault': None}
    check_ff_file(0, 1, 3, 2, 0, 0)
    PART = {'count': 5, 'fault': None}
    check_ff_file(4, 5, 6, 2, 4, 0)      # modification snippet: nx.is_connected must be compiled before tracing
    PART = {'count': 2, 'fault': 'arity'}
    check_ff_file(0, 1, 0, 0, 0, 1)
    PART = {'n1': 2, 'n2': 4}
    check_itp_file(2, 4, 3, 4)
    check_weights(2, 1, 1)
    PART = saved


def selftest(seed):
    import random
    global PART
    rng = random.Random(seed)
    runs, failures = 0, []
    for _ in range(300):
        line = ''.join(rng.choice(ALPHABET) for _ in range(rng.randint(0, 8)))
        PART = {'len': len(line)}
        res = check_tokenize(line)
        runs += 1
        if res != ok() and not ('unbalanced' in res and 'C13-tokenize-negative-depth' in open_findings('C13')):
            failures.append('check_tokenize(%r) -> %s' % (line, res))
    for _ in range(100):
        count = rng.randint(0, 5)
        fault = rng.choice([None, None] + list(FAULTS))
        PART = {'count': count, 'fault': fault}
        args = [rng.randrange(len(ORDERABLE)) if i < count else 0 for i in range(5)] + [rng.randint(0, count) if fault else 0]
        res = check_ff_file(*args)
        runs += 1
        if res != ok():
            failures.append('check_ff_file%r %r -> %s' % (tuple(args), PART, res))
    for _ in range(50):
        PART = {'n1': rng.randint(1, 3), 'n2': rng.randint(2, 4)}
        a, b = rng.sample(range(1, PART['n2'] + 2), 2)
        res = check_itp_file(PART['n1'], PART['n2'], a, b)
        runs += 1
        if res != ok():
            failures.append('check_itp_file -> %s' % res)
    return {'runs': runs, 'failures': failures[:3]}


def cases(tier):
    out = []
    maxlen = 5 if tier == 'quick' else 6
    for n in range(0, maxlen + 1):
        plen = max(0, n - 3)
        for prefix in itertools.product(ALPHABET, repeat=plen):
            prefix = ''.join(prefix)
            out.append({'fn': 'check_tokenize', 'part': {'len': n - plen, 'prefix': prefix}, 'label': 'tokenize[len%d %r*]' % (n, prefix),
                        'timeout': 300, 'path_timeout': 30, 'twin': n == 3})
    for kind in '+-><*':
        for n in (1, 2, 3):
            for mode in ('attr', 'both'):
                out.append({'fn': 'check_prefix', 'part': {'kind': kind, 'n': n, 'mode': mode}, 'label': 'prefix[%s x%d %s]' % (kind, n, mode),
                            'timeout': 300, 'path_timeout': 30, 'twin': kind == '+' and n == 1})
    maxcount = 3 if tier == 'quick' else 4
    for count in range(0, maxcount + 1):
        firsts = [None] if count < 3 else list(range(len(ORDERABLE)))
        for first in firsts:
            out.append({'fn': 'check_ff_file', 'part': {'count': count, 'fault': None, 'first': first},
                        'label': 'ff[%d sections first%s]' % (count, first), 'timeout': 900, 'path_timeout': 30, 'twin': count == 2})
    for fault in FAULTS:
        for count in (0, 1, 2):
            out.append({'fn': 'check_ff_file', 'part': {'count': count, 'fault': fault}, 'label': 'ff-fault[%s in %d sections]' % (fault, count),
                        'timeout': 900, 'path_timeout': 30})
    for n1 in (1, 2, 3):
        for n2 in (2, 3, 4):
            pass
    out.append({'fn': 'check_weights', 'part': {}, 'label': 'map-weights', 'timeout': 600, 'path_timeout': 30})
    for n1 in (1, 2, 3):
        for n2 in (2, 3, 4):
            out.append({'fn': 'check_itp_file', 'part': {'n1': n1, 'n2': n2}, 'label': 'itp[%d+%d atoms]' % (n1, n2), 'timeout': 600,
                        'path_timeout': 30, 'twin': n1 == 2})
    return out
