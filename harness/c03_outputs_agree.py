"""C03 - coordinates, molecule types and system topology agree atom for atom.

Real code executed symbolically (CrossHair): write_pdb_string, write_molecule_itp, Molecule.sorted_nodes,
NameMolType.run_system (_name_with_deduplication / _name_without_deduplication), Molecule.share_moltype_with
(same_nodes, same_edges, same_interactions, utils.are_different), write_gmx_topology.
"""
import io
import itertools

from engine.common import ok, no_tracing, RecLogger

PART = {}

META = {
    'engine': 'E1 CrossHair 0.0.110 + z3',
    'functions': ['vermouth.pdb.pdb.write_pdb_string', 'vermouth.gmx.itp.write_molecule_itp', 'vermouth.molecule.Molecule.sorted_nodes',
                  'vermouth.processors.name_moltype.NameMolType.run_system', 'vermouth.molecule.Molecule.share_moltype_with',
                  'Molecule.same_nodes', 'Molecule.same_edges', 'Molecule.same_interactions', 'vermouth.utils.are_different',
                  'vermouth.gmx.topology.write_gmx_topology'],
    'bounds': {
        'quick': '(a) systems of 1-2 molecules of 3-4 atoms, 3 node-key layouts, every subset of atoms with atom id, atom ids '
                 'unbounded integers; (b) pairs/triples of molecules identical up to one symbolic difference (resid, charge group, '
                 'atom id: unbounded integers; atom type / atom name / interaction parameter: strings len<=2; extra bond, extra '
                 'trailing interaction, nrexcl); (c) sequences of <= 4 molecules over 3 molecule types, every sequence',
        'thorough': '(c) sequences of <= 5 molecules; (a) 5 atoms',
    },
    'stubs': ['vermouth.gmx.topology.deferred_open -> in-memory opener recording {path: text}', 'topology LOGGER -> recorder'],
    'assumptions': ['"written topologies identical" is judged on the fields the ITP states (atom type, resid, resname, atom name, '
                    'charge group, charge, mass, interactions with parameters and guards, nrexcl); C02 shows the text states '
                    'exactly those', 'float-valued attributes (charge, mass) are equal in the compared molecules (are_different '
                    'tolerates rounding there by design)'],
    'outside': ['GRO output order (write_gro follows node order; martinize2 writes PDB)', 'meta keys define / pre-/post-section lines'],
}

LAYOUTS = {'ordered': [0, 1, 2, 3, 4], 'sparse': [7, 2, 40, 3, 11], 'reversed': [4, 3, 2, 1, 0]}


def _molecule(keys, atomids, has_id, tag, resid0=1):
    import numpy as np
    from vermouth.molecule import Molecule
    mol = Molecule(nrexcl=1)
    mol.meta['moltype'] = 'M%s' % tag
    for pos, key in enumerate(keys):
        attrs = dict(atype='T%d' % pos, resid=resid0 + pos // 2, resname='R%s%d' % (tag, pos // 2), atomname='%s%d' % (tag, pos),
                     charge_group=pos + 1, chain='A', position=np.array([0.1 * pos, 0.2, 0.3]), element='C')
        if has_id[pos]:
            attrs['atomid'] = atomids[pos]
        mol.add_node(key, **attrs)
    for a, b in zip(keys, keys[1:]):
        mol.add_edge(a, b)
    return mol


def _pdb_atoms(text):
    out = []
    current = []
    for line in text.split('\n'):
        if line.startswith('ATOM'):
            current.append((line[12:16].strip(), line[17:20].strip(), int(line[22:26])))
        elif line.startswith('TER'):
            out.append(current)
            current = []
    return out


def _itp_atoms(text):
    out = []
    section = None
    for raw in text.split('\n'):
        line = raw.split(';', 1)[0].strip()
        if not line:
            continue
        if line.startswith('['):
            section = line.strip('[] ')
            continue
        if section == 'atoms':
            tok = line.split()
            out.append((tok[4], tok[3], int(tok[2])))
    return out


def check_order(i0: int, i1: int, i2: int, i3: int, j0: int, j1: int, j2: int) -> str:
    """
    post: _ == ''
    """
    from vermouth.system import System
    from vermouth.pdb.pdb import write_pdb_string
    from vermouth.gmx.itp import write_molecule_itp
    n = PART['n']
    keys = LAYOUTS[PART['layout']][:n]
    mols = [_molecule(keys, [i0, i1, i2, i3][:n], PART['has_id'], 'A')]
    if PART.get('second'):
        mols.append(_molecule(LAYOUTS['sparse'][:3], [j0, j1, j2], PART['has_id'][::-1][:3], 'B', resid0=5))
    system = System()
    system.molecules = mols
    pdb = write_pdb_string(system, conect=False)
    itps = []
    for mol in mols:
        out = io.StringIO()
        write_molecule_itp(mol, out)
        itps.append(out.getvalue())
    with no_tracing():
        records = _pdb_atoms(str(pdb))
        tables = [_itp_atoms(str(t)) for t in itps]
    if len(records) != len(mols):
        return 'number of TER-delimited molecules in the PDB differs from the system'
    for recs, table in zip(records, tables):
        if len(recs) != len(table):
            return 'PDB and ITP list a different number of atoms'
        for k, (a, b) in enumerate(zip(recs, table)):
            if a != b:
                return 'the k-th coordinate record is not the k-th atom of the ITP'
    return ok()


# ---------------------------------------------------------------------------------- (b) deduplication
def _itp_view(mol):
    """What the ITP of a molecule states (C02): ordered atoms and interactions."""
    atoms = [tuple(mol.nodes[k].get(a) for a in ('atype', 'resid', 'resname', 'atomname', 'charge_group', 'charge', 'mass'))
             for k in mol.sorted_nodes]
    index = {k: i for i, k in enumerate(mol.sorted_nodes)}
    inters = sorted((t, [(tuple(index[a] for a in i.atoms), tuple(i.parameters), i.meta.get('ifdef'), i.meta.get('ifndef'))
                         for i in lst]) for t, lst in mol.interactions.items() if lst)
    return atoms, inters, mol.nrexcl


def _base(tag_resid, charge_group, atomid, atype, atomname, param, extra_edge, extra_inter, nrexcl):
    from vermouth.molecule import Molecule
    from vermouth.forcefield import ForceField
    mol = Molecule(nrexcl=nrexcl, force_field=_FF)
    for pos in range(3):
        mol.add_node(pos, atype='P1' if pos else atype, resid=tag_resid if pos == 2 else 1, resname='ALA',
                     atomname=atomname if pos == 1 else 'B%d' % pos, charge_group=charge_group if pos == 2 else pos + 1,
                     atomid=atomid if pos == 0 else pos + 1, charge=0.0, mass=72.0, chain='A')
    mol.add_edge(0, 1)
    mol.add_edge(1, 2)
    if extra_edge:
        mol.add_edge(0, 2)
    mol.add_interaction('bonds', (0, 1), ['1', '0.35', param])
    mol.add_interaction('bonds', (1, 2), ['1', '0.35', '1250'])
    if extra_inter:
        mol.add_interaction('bonds', (0, 2), ['6', '0.5', '500'], {'group': 'Rubber band'})
    mol.add_interaction('angles', (0, 1, 2), ['2', '120', '25'])
    return mol


_FF = None


def _ff():
    global _FF
    if _FF is None:
        from vermouth.forcefield import ForceField
        _FF = ForceField(name='c03')
    return _FF


def strs_ok(s1: str, s2: str) -> bool:
    return len(s1) <= 2 and len(s2) <= 2


def check_dedup(v1: int, v2: int, s1: str, s2: str, flag1: bool, flag2: bool) -> str:
    """
    pre: strs_ok(s1, s2)
    post: _ == ''
    """
    from vermouth.system import System
    from vermouth.processors.name_moltype import NameMolType
    _ff()
    kind = PART['kind']
    defaults = dict(tag_resid=2, charge_group=3, atomid=1, atype='P1', atomname='B1', param='1250', extra_edge=False,
                    extra_inter=False, nrexcl=1)

    def variant(ival, sval, flag):
        args = dict(defaults)
        if kind in ('tag_resid', 'charge_group', 'atomid', 'nrexcl'):
            args[kind] = ival
        elif kind in ('atype', 'atomname', 'param'):
            args[kind] = sval
        else:
            args[kind] = flag
        return _base(**args)
    mols = [variant(v1, s1, flag1), variant(v2, s2, flag2), variant(v1, s1, flag1)]
    if PART.get('order') == 'aba':
        pass
    else:
        mols = [mols[0], mols[2], mols[1]]
    system = System(force_field=_FF)
    system.molecules = mols
    NameMolType(deduplicate=True).run_system(system)
    names = [m.meta['moltype'] for m in system.molecules]
    views = [_itp_view(m) for m in system.molecules]
    for a, b in itertools.combinations(range(3), 2):
        if names[a] == names[b] and views[a] != views[b]:
            return 'two molecules share a molecule type name although their written topologies differ'
        if PART.get('complete') and views[a] == views[b] and dict(mols[a].nodes(data='atomid')) == dict(mols[b].nodes(data='atomid')) \
                and set(mols[a].edges) == set(mols[b].edges) and names[a] != names[b]:
            return 'identical molecules were given different molecule type names (deduplication lost)'
    system2 = System(force_field=_FF)
    system2.molecules = [variant(v1, s1, flag1), variant(v1, s1, flag1)]
    NameMolType(deduplicate=False).run_system(system2)
    if system2.molecules[0].meta['moltype'] == system2.molecules[1].meta['moltype']:
        return 'without deduplication two molecules share a name'
    return ok()


# ---------------------------------------------------------------------------------- (c) .top
NAMES = ['molecule_0', 'molecule_1', 'lig']


class _MemFS:
    def __init__(self):
        self.files = {}
        self.writes = {}

    def open(self, path, mode='w'):
        fs = self
        path = str(path)

        class Handle(io.StringIO):
            def close(inner):
                fs.files[path] = inner.getvalue()
                fs.writes[path] = fs.writes.get(path, 0) + 1
                io.StringIO.close(inner)

            def __exit__(inner, *a):
                inner.close()
                return False
        return Handle()


def top_pinned(m0: int, m1: int, m2: int, m3: int, m4: int) -> bool:
    sels = [m0, m1, m2, m3, m4]
    prefix = PART.get('prefix', [])
    for i, v in enumerate(prefix):
        if sels[i] != v:
            return False
    for extra in sels[PART['count']:]:
        if extra != 0:
            return False
    return True


def check_top(m0: int, m1: int, m2: int, m3: int, m4: int) -> str:
    """
    pre: all(0 <= m <= 2 for m in (m0, m1, m2, m3, m4))
    pre: top_pinned(m0, m1, m2, m3, m4)
    post: _ == ''
    """
    import numpy as np
    import vermouth.gmx.topology as topo
    from vermouth.molecule import Molecule
    from vermouth.system import System
    count = PART['count']
    sels = [m0, m1, m2, m3, m4][:count]
    system = System()
    system.meta['header'] = ['test header']
    for idx, sel in enumerate(sels):
        mol = Molecule(nrexcl=1)
        mol.meta['moltype'] = NAMES[sel]
        mol.add_node(0, atype='P1', resid=1, resname='R%d' % sel, atomname='B', charge_group=1)
        mol.citations = set()
        system.molecules.append(mol)
    fs = _MemFS()
    saved = (topo.deferred_open, topo.LOGGER)
    topo.deferred_open = fs.open
    topo.LOGGER = RecLogger()
    try:
        topo.write_gmx_topology(system, 'out.top')
    finally:
        topo.deferred_open, topo.LOGGER = saved
    with no_tracing():
        top = str(fs.files.get('out.top', ''))
        lines = [ln.strip() for ln in top.split('\n')]
        includes = [ln.split('"')[1] for ln in lines if ln.startswith('#include')]
        molecules = []
        if '[ molecules ]' in lines:
            for ln in lines[lines.index('[ molecules ]') + 1:]:
                if ln and not ln.startswith(';'):
                    name, num = ln.split()
                    molecules.append((name, int(num)))
    expected = []
    for sel in sels:
        if expected and expected[-1][0] == NAMES[sel]:
            expected[-1] = (NAMES[sel], expected[-1][1] + 1)
        else:
            expected.append((NAMES[sel], 1))
    if molecules != expected:
        return '[ molecules ] is not the run-length encoding of the molecules in coordinate-file order'
    used = []
    for sel in sels:
        if NAMES[sel] not in used:
            used.append(NAMES[sel])
    wanted_includes = ['martini.itp'] + ['%s.itp' % name for name in used]
    if sorted(includes) != sorted(wanted_includes):
        return 'a molecule-type file is not included exactly once'
    for name in used:
        if fs.writes.get('%s.itp' % name, 0) != 1:
            return 'a molecule-type ITP is not written exactly once'
        if '[ moleculetype ]' not in fs.files['%s.itp' % name] or name not in fs.files['%s.itp' % name]:
            return 'ITP content does not describe its molecule type'
    if set(fs.files) != {'out.top'} | {'%s.itp' % name for name in used}:
        return 'unexpected files written'
    return ok()


def warmup():
    global PART
    saved = PART
    PART = {'n': 4, 'layout': 'sparse', 'has_id': [True, False, True, True], 'second': True}
    check_order(3, 1, 2, 0, 5, 5, 1)
    for kind in ('tag_resid', 'atype', 'extra_inter'):
        PART = {'kind': kind, 'order': 'aba', 'complete': True}
        check_dedup(100000, 100001, 'P1', 'P2', True, False)
    PART = {'count': 4}
    check_top(0, 1, 0, 2, 0)
    PART = saved


def selftest(seed):
    import random
    global PART
    rng = random.Random(seed)
    runs, failures = 0, []
    for _ in range(60):
        PART = {'n': rng.choice([3, 4]), 'layout': rng.choice(list(LAYOUTS)), 'has_id': [rng.random() < 0.7 for _ in range(4)],
                'second': rng.random() < 0.5}
        args = [rng.randint(0, 5) for _ in range(7)]
        res = check_order(*args)
        runs += 1
        if res != ok():
            failures.append('check_order%r %r -> %s' % (tuple(args), PART, res))
    for _ in range(60):
        PART = {'kind': rng.choice(KINDS), 'order': rng.choice(['aba', 'aab']), 'complete': True}
        args = [rng.choice([1, 2, 100000, 100001]), rng.choice([1, 2, 100000, 100001]), rng.choice(['P1', 'Q']), rng.choice(['P1', 'Q']),
                rng.random() < 0.5, rng.random() < 0.5]
        res = check_dedup(*args)
        runs += 1
        if res != ok():
            failures.append('check_dedup%r %r -> %s' % (tuple(args), PART, res))
    for _ in range(60):
        PART = {'count': rng.randint(1, 5)}
        args = [rng.randint(0, 2) if i < PART['count'] else 0 for i in range(5)]
        res = check_top(*args)
        runs += 1
        if res != ok():
            failures.append('check_top%r %r -> %s' % (tuple(args), PART, res))
    return {'runs': runs, 'failures': failures[:3]}


KINDS = ['tag_resid', 'charge_group', 'atomid', 'nrexcl', 'atype', 'atomname', 'param', 'extra_edge', 'extra_inter']


def cases(tier):
    out = []
    n = 4
    for layout in LAYOUTS:
        for has_id in itertools.product((True, False), repeat=n):
            out.append({'fn': 'check_order', 'part': {'n': n, 'layout': layout, 'has_id': list(has_id), 'second': False},
                        'label': 'order[%s ids%s]' % (layout, ''.join('1' if b else '0' for b in has_id)),
                        'timeout': 600, 'path_timeout': 30, 'twin': all(has_id)})
        for has_id in itertools.product((True, False), repeat=3):
            if sum(has_id) <= (1 if tier == 'quick' else 3):
                out.append({'fn': 'check_order', 'part': {'n': 3, 'layout': layout, 'has_id': list(has_id) + [False], 'second': True},
                            'label': 'order2[%s ids%s]' % (layout, ''.join('1' if b else '0' for b in has_id)),
                            'timeout': 600, 'path_timeout': 30})
    for kind in KINDS:
        for order in ('aba', 'aab'):
            out.append({'fn': 'check_dedup', 'part': {'kind': kind, 'order': order, 'complete': True},
                        'label': 'dedup[%s %s]' % (kind, order), 'timeout': 600, 'path_timeout': 30, 'twin': kind == 'tag_resid'})
    maxcount = 4 if tier == 'quick' else 5
    for count in range(1, maxcount + 1):
        prefixes = [()] if count <= 2 else list(itertools.product(range(3), repeat=count - 2))
        for prefix in prefixes:
            out.append({'fn': 'check_top', 'part': {'count': count, 'prefix': list(prefix)},
                        'label': 'top[%d molecules %s*]' % (count, ''.join(map(str, prefix))), 'timeout': 600,
                        'path_timeout': 30, 'twin': count == 3 and prefix == (0,)})
    return out
