"""C17 - per-residue annotations land on the intended residues and translate correctly.

Real code executed symbolically (CrossHair): AnnotateResidues.run_system / run_molecule,
annotate_residues_from_sequence, Molecule.iter_residues (-> make_residue_graph), convert_dssp_to_martini,
convert_dssp_annotation_to_martini, sequence_from_residues.
"""
import itertools

from engine.common import ok, open_findings

PART = {}

META = {
    'engine': 'E1 CrossHair 0.0.110 + z3',
    'functions': ['vermouth.dssp.dssp.AnnotateResidues.run_system', 'AnnotateResidues.run_molecule',
                  'vermouth.dssp.dssp.annotate_residues_from_sequence', 'vermouth.molecule.Molecule.iter_residues',
                  'vermouth.dssp.dssp.convert_dssp_to_martini', 'vermouth.dssp.dssp.convert_dssp_annotation_to_martini',
                  'vermouth.dssp.dssp.sequence_from_residues'],
    'bounds': {
        'quick': 'systems of <= 3 molecules with 1-2 residues each (every combination), selection flags and sequence '
                 'length 0..5 forked symbolically, sequence elements unbounded symbolic integers; DSSP strings: full '
                 '11-letter alphabet len <= 2, class alphabet {H,G,C,B} len <= 6, run-length family C^a H^L C^b H^M C^c '
                 'with L, M <= 10',
        'thorough': '<= 4 molecules with 1-3 residues, interleaved atom order; class alphabet len <= 7, L, M <= 14',
    },
    'stubs': ['none (logging untouched: only LOGGER.debug with a constant message is reachable)'],
    'assumptions': ['residue identity (chain, resid, resname) is concrete because make_residue_graph hashes it',
                    'k-th residue = k-th in the order of Molecule.iter_residues, i.e. by lowest node key',
                    'the DSSP alphabet is abstracted to the behaviour classes of the code (== "H" after the class table); '
                    'the 11-entry table itself is checked letter by letter (len <= 2 over the full alphabet)'],
    'outside': ['running DSSP/mdtraj itself (external program), -ss parsing in the CLI', 'systems with more than 4 molecules'],
}


def _molecule(nres, natoms, interleave, first_resid):
    from vermouth.molecule import Molecule
    mol = Molecule()
    keys = []
    if interleave:
        order = [(r, a) for a in range(natoms) for r in range(nres)]
    else:
        order = [(r, a) for r in range(nres) for a in range(natoms)]
    for key, (r, a) in enumerate(order):
        mol.add_node(key, resid=first_resid + r, resname='ALA', chain='A', atomname='A%d' % a)
        keys.append((key, r))
    return mol, keys


def _expected_sequence(nres_selected, seq):
    """The documented reconciliation. Returns list or None (= ValueError expected)."""
    total = sum(nres_selected)
    length = len(seq)
    if not nres_selected:
        return [] if length == 0 else None
    if length == total:
        return list(seq)
    if all(n == nres_selected[0] for n in nres_selected) and length == nres_selected[0]:
        return list(seq) * len(nres_selected)
    if length == 1:
        return list(seq) * total
    return None


def carve_c17(sel0: bool, sel1: bool, sel2: bool, sel3: bool) -> bool:
    """Known finding C17-unselected-first (while open): an unselected molecule ahead of a selected one."""
    for extra in [sel0, sel1, sel2, sel3][len(PART['mols']):]:
        if extra:
            return False          # selectors beyond the shape are pinned to False
    if 'C17-unselected-first' not in open_findings('C17'):
        return True
    sels = [sel0, sel1, sel2, sel3][:len(PART['mols'])]
    seen_unselected = False
    for s in sels:
        if not s:
            seen_unselected = True
        elif seen_unselected:
            return False
    return True


def check_run_system(sel0: bool, sel1: bool, sel2: bool, sel3: bool, length: int,
                     e0: int, e1: int, e2: int, e3: int, e4: int, e5: int) -> str:
    """
    pre: 0 <= length <= 6
    pre: carve_c17(sel0, sel1, sel2, sel3)
    post: _ == ''
    """
    from vermouth.system import System
    from vermouth.dssp.dssp import AnnotateResidues
    shapes = PART['mols']         # list of nres per molecule
    sels = [sel0, sel1, sel2, sel3][:len(shapes)]
    seq = [e0, e1, e2, e3, e4, e5][:length]
    system = System()
    info = []
    for idx, nres in enumerate(shapes):
        mol, keys = _molecule(nres, PART.get('natoms', 2), PART.get('interleave', False), 10 * idx + 3)
        mol.meta['sel'] = sels[idx]
        system.molecules.append(mol)
        info.append((mol, keys))
    expected = _expected_sequence([n for n, s in zip(shapes, sels) if s], seq)
    proc = AnnotateResidues('ss', seq, molecule_selector=lambda m: m.meta['sel'])
    try:
        proc.run_system(system)
    except ValueError:
        if expected is None:
            return ok()
        return 'ValueError for a sequence that fits'
    if expected is None:
        return 'length mismatch accepted (assignment would be shifted)'
    pos = 0
    for (mol, keys), nres, selected in zip(info, shapes, sels):
        for key, r in keys:
            attrs = mol.nodes[key]
            if not selected:
                if 'ss' in attrs:
                    return 'unselected molecule annotated'
            else:
                if 'ss' not in attrs:
                    return 'atom of a selected residue left without annotation'
                if attrs['ss'] != expected[pos + r]:
                    return 'element assigned to the wrong residue'
        if selected:
            pos += nres
    return ok()


def check_run_molecule(selected: bool, length: int, e0: int, e1: int, e2: int, e3: int) -> str:
    """
    pre: 0 <= length <= 4
    post: _ == ''
    """
    from vermouth.dssp.dssp import AnnotateResidues
    nres = PART['nres']
    seq = [e0, e1, e2, e3][:length]
    mol, keys = _molecule(nres, 2, PART.get('interleave', False), 5)
    mol.meta['sel'] = selected
    proc = AnnotateResidues('ss', seq, molecule_selector=lambda m: m.meta['sel'])
    try:
        proc.run_molecule(mol)
    except ValueError:
        if selected and length != nres and length != 1:
            return ok()
        return 'ValueError for a sequence that fits'
    if selected and length != nres and length != 1:
        return 'length mismatch accepted'
    for key, r in keys:
        attrs = mol.nodes[key]
        if not selected:
            if 'ss' in attrs:
                return 'unselected molecule annotated'
        elif attrs.get('ss', None) is None or attrs['ss'] != (seq[0] if length == 1 else seq[r]):
            return 'element assigned to the wrong residue'
    return ok()


# ---------------------------------------------------------------- DSSP -> Martini
TABLE = {'1': 'H', '2': 'H', '3': 'H', 'H': 'H', 'G': 'H', 'I': 'H', 'B': 'E', 'E': 'E', 'T': 'T', 'S': 'S', 'C': 'C'}
ALPHABET = 'HGI123BETSC'


def reference_convert(seq):
    """Run-length statement of the documented helix rules (independent of the pattern-replacement code)."""
    cg = [TABLE[ch] for ch in seq]
    out = list(cg)
    i = 0
    n = len(cg)
    while i < n:
        if cg[i] != 'H':
            i += 1
            continue
        j = i
        while j < n and cg[j] == 'H':
            j += 1
        run = j - i
        if run <= 4:
            rep = '3' * run
        elif run == 5:
            rep = '13332'
        elif run == 6:
            rep = '113322'
        elif run == 7:
            rep = '1113222'
        else:
            rep = '1111' + 'H' * (run - 8) + '2222'
        out[i:j] = list(rep)
        i = j
    return ''.join(out)


def in_alphabet(s: str) -> bool:
    alphabet = PART['alphabet']
    for ch in s:
        if ch not in alphabet:
            return False
    return True


def check_convert_str(s: str) -> str:
    """
    pre: len(s) == PART['len']
    pre: in_alphabet(s)
    post: _ == ''
    """
    from vermouth.dssp.dssp import convert_dssp_to_martini
    s = PART.get('prefix', '') + s        # concrete prefix = partition of the string space over workers
    got = convert_dssp_to_martini(s)
    if len(got) != len(s):
        return 'length not preserved'
    if got != reference_convert(s):
        return 'conversion differs from the documented class table / helix rules'
    return ok()


def check_convert_runs(a: int, hl: int, b: int, hm: int, c: int) -> str:
    """
    pre: 0 <= a <= 1 and 1 <= b <= 2 and 0 <= c <= 1
    pre: PART['lo'] <= hl <= PART['hi'] and 0 <= hm <= PART['m']
    post: _ == ''
    """
    from vermouth.dssp.dssp import convert_dssp_to_martini
    s = 'C' * a + 'H' * hl + 'T' * b + 'G' * hm + 'E' * c
    got = convert_dssp_to_martini(s)
    if len(got) != len(s):
        return 'length not preserved'
    if got != reference_convert(s):
        return 'helix of this length rewritten against the documented rules'
    return ok()


def check_convert_annotation(s: str) -> str:
    """
    pre: len(s) == PART['len']
    pre: in_alphabet(s)
    post: _ == ''
    """
    from vermouth.dssp.dssp import convert_dssp_annotation_to_martini
    mol, keys = _molecule(PART['len'], 2, PART.get('interleave', False), 7)
    for key, r in keys:
        mol.nodes[key]['aasecstruct'] = s[r]
    convert_dssp_annotation_to_martini(mol)
    want = reference_convert(s)
    for key, r in keys:
        if mol.nodes[key].get('cgsecstruct') != want[r]:
            return 'martini class attached to the wrong residue'
    return ok()


def warmup():
    global PART
    saved = PART
    PART = {'mols': [2, 1, 2], 'natoms': 2, 'interleave': False}
    assert check_run_system(True, True, True, False, 5, 1, 2, 3, 4, 5, 6) == ok()
    assert check_run_system(True, True, False, False, 1, 1, 2, 3, 4, 5, 6) == ok()
    PART = {'mols': [2, 2], 'natoms': 2, 'interleave': True}
    assert check_run_system(True, True, False, False, 2, 1, 2, 3, 4, 5, 6) == ok()
    assert check_run_system(True, True, False, False, 3, 1, 2, 3, 4, 5, 6) == ok()
    PART = {'nres': 2}
    assert check_run_molecule(True, 2, 4, 5, 6, 7) == ok()
    PART = {'len': 6, 'alphabet': 'HGCB'}
    assert check_convert_str('HHGCBH') == ok()
    assert check_convert_annotation('HHGCBH') == ok()
    PART = {'lo': 0, 'hi': 12, 'm': 9}
    assert check_convert_runs(1, 9, 1, 5, 1) == ok()
    PART = saved


def selftest(seed):
    import random
    global PART
    rng = random.Random(seed)
    failures = []
    runs = 0
    from vermouth.dssp.dssp import convert_dssp_to_martini, SS_CG
    if dict(SS_CG) != TABLE:
        pass   # the table is the subject of check_convert_str over the full alphabet; not judged here
    # the repository's own test inputs through the reference (translation validation of the oracle)
    docs = [('HHHHHHHHHH', '1111HH2222'), ('CHHHC', 'C333C'), ('CCHHHHHCC', 'CC13332CC'), ('HHHHHHCCHHHHHHHH', '113322CC11112222')]
    for src, want in docs:
        runs += 1
        if reference_convert(src) != want:
            failures.append('reference_convert(%r) = %r' % (src, reference_convert(src)))
    for _ in range(300):
        s = ''.join(rng.choice(ALPHABET) for _ in range(rng.randint(0, 30)))
        runs += 1
        PART = {'len': len(s), 'alphabet': ALPHABET}
        res = check_convert_str(s)
        if res != ok():
            failures.append('check_convert_str(%r) -> %s' % (s, res))
    return {'runs': runs, 'failures': failures[:3]}


def cases(tier):
    out = []
    maxm = 3 if tier == 'quick' else 4
    nres_opts = (1, 2) if tier == 'quick' else (1, 2, 3)
    for m in range(0, maxm + 1):
        for shape in itertools.product(nres_opts, repeat=m):
            if tier == 'thorough' and m == 4 and 3 in shape:
                continue
            variants = [(2, False)] if tier == 'quick' else ([(2, False), (2, True)] if m < 4 else [(2, m % 2 == 0)])
            for natoms, interleave in variants:
                out.append({'fn': 'check_run_system', 'part': {'mols': list(shape), 'natoms': natoms, 'interleave': interleave},
                            'label': 'run_system[%s a%d i%d]' % (','.join(map(str, shape)) or '-', natoms, interleave),
                            'timeout': 200, 'path_timeout': 40, 'twin': m in (0, 2)})
    for shape in ([2, 1, 3], [2, 3, 1], [3, 2, 4]):
        # unequal residue counts whose mean equals the first one (a sequence as long as the first molecule must not be repeated)
        out.append({'fn': 'check_run_system', 'part': {'mols': shape, 'natoms': 1, 'interleave': False},
                    'label': 'run_system[%s mean=first]' % ','.join(map(str, shape)), 'timeout': 300, 'path_timeout': 40})
    for nres in (1, 2, 3):
        out.append({'fn': 'check_run_molecule', 'part': {'nres': nres, 'interleave': nres == 2},
                    'label': 'run_molecule[%d]' % nres, 'timeout': 120})
    # DSSP conversion
    for n in (0, 1, 2):
        out.append({'fn': 'check_convert_str', 'part': {'len': n, 'alphabet': ALPHABET}, 'label': 'convert[full,len%d]' % n,
                    'timeout': 200})
    maxlen = 6 if tier == 'quick' else 7
    for n in range(3, maxlen + 1):
        plen = max(0, n - 4)
        for prefix in itertools.product('HGCB', repeat=plen):
            prefix = ''.join(prefix)
            out.append({'fn': 'check_convert_str', 'part': {'len': n - plen, 'alphabet': 'HGCB', 'prefix': prefix},
                        'label': 'convert[HGCB,len%d,%s*]' % (n, prefix), 'timeout': 300, 'path_timeout': 30,
                        'twin': n == 3 or prefix == 'HC'})
    hi = 10 if tier == 'quick' else 14
    for lo in range(0, hi + 1):
        out.append({'fn': 'check_convert_runs', 'part': {'lo': lo, 'hi': lo, 'm': hi}, 'label': 'runs[L=%d,M<=%d]' % (lo, hi),
                    'timeout': 300, 'twin': lo == 5})
    for n in (1, 3, 5):
        out.append({'fn': 'check_convert_annotation', 'part': {'len': n, 'alphabet': 'HC', 'interleave': n == 3},
                    'label': 'annotation[len%d]' % n, 'timeout': 300, 'twin': n == 3})
    return out
