"""C05 - links are applied at exactly the places where they fit.

Real code executed symbolically (CrossHair): match_order, _interpret_order, match_link (incl. networkx VF2
GraphMatcher with _atoms_match), _is_valid_non_edges, _any_pattern_match, DoLinks.run_molecule,
Molecule.add_or_replace_interaction / remove_matching_interaction, the ParamDihedral/ParamDistance effectors.
The toy force field is parsed from text by the real vermouth.ffinput.read_ff at import time.

data (solver): the residue number of every residue (unbounded integers: gaps, insertions, decreasing,
duplicates), numeric link orders.  shape (partition): molecule topology, ordered link list, molecule meta flag.
"""
import itertools
import math

from engine.common import ok
from engine.chsym import b_and, b_or, b_not, b_eq

PART = {}

META = {
    'engine': 'E1 CrossHair 0.0.110 + z3',
    'functions': ['vermouth.processors.do_links.match_order', '_interpret_order', 'match_link', '_atoms_match',
                  '_is_valid_non_edges', '_any_pattern_match', '_build_link_interaction_from',
                  'DoLinks.run_molecule', 'vermouth.molecule.Molecule.add_or_replace_interaction',
                  'Molecule.remove_matching_interaction', 'vermouth.molecule.attributes_match',
                  'ParamDihedral/ParamDistance effectors', 'networkx GraphMatcher.subgraph_isomorphisms_iter'],
    'bounds': {
        'quick': 'match_order: every pair of order kinds (number, >^k, <^k, *^k, k<=3) with all resids and numeric '
                 'orders unbounded integers; DoLinks: molecules of 3-4 two-bead residues (linear+disulfide, branched, '
                 'ring), link lists of 1-3 of 11 toy links (incl. a star-shaped link with three distinct symbolic orders), all resids unbounded integers',
        'thorough': 'all 11 toy links in two orders on each molecule, plus every pair of neighbouring links in reversed order',
    },
    'stubs': ['vermouth.processors.do_links.sign (numpy) -> (x>0)-(x<0): numpy concretises symbolic ints'],
    'assumptions': ['floats are modelled as reals by the engine (only float(int) integrality tests occur; exact for |n| < 2**53); numeric link orders |n| <= 8',
                    'positions are concrete and pairwise distinct, so a geometry-derived parameter identifies the atoms '
                    'it was computed from (transcendental functions are outside the solver)',
                    'attribute predicates limited to equality on atomname/resname (Choice/NotDefined predicates outside)',
                    'oracle enumerates all injective placements of link atoms and evaluates the documented conditions '
                    'branch-free as z3 terms'],
    'outside': ['real force-field link sets', 'node-removing links (replace atomname null)', 'modification matching'],
}

FF_TEXT = '''
[ link ]
[ bonds ]
BB +BB 1 0.35 1250

[ link ]
[ angles ]
-BB BB +BB 2 127 20

[ link ]
resname "CYS"
[ bonds ]
SC1 >SC1 1 0.24 7500 {"comment": "disulfide"}

[ link ]
[ bonds ]
BB +BB 1 0.31 7500
[ patterns ]
BB {"resname": "GLY"} +BB
BB +BB {"resname": "GLY"}

[ link ]
[ molmeta ]
flag true
[ atoms ]
BB {"replace": {"tag": "x"}}
[ bonds ]
BB *SC1 1 0.5 100
[ non-edges ]
BB +BB

[ link ]
[ !bonds ]
BB ++BB
[ dihedrals ]
BB +BB ++BB +++BB 1 dihedral(BB,+BB,++BB,+++BB) 10 1
[ edges ]
BB +BB
+BB ++BB
++BB +++BB

[ link ]
[ bonds ]
BB ++BB 1 dist(BB,++BB) 300
[ edges ]
BB +BB
+BB ++BB
[ non-edges ]
BB ++BB

[ link ]
[ bonds ]
BB +BB 1 0.40 900
[ non-edges ]
BB +SC1
BB -BB

[ link ]
[ dihedrals ]
SC1 BB +BB +SC1 1 10 20 1

[ link ]
[ dihedrals ]
SC1 BB +BB +SC1 9 0 5 1 {"version": 1}
SC1 BB +BB +SC1 9 0 7 2 {"version": 2}

[ link ]
[ angles ]
>BB BB >>BB 2 100 10
[ edges ]
BB >BB
BB >>BB
'''
NLINKS = 11

_FF = None


def force_field():
    global _FF
    if _FF is None:
        from vermouth.forcefield import ForceField
        from vermouth.ffinput import read_ff
        ff = ForceField(name='toy')
        read_ff(FF_TEXT.splitlines(), ff)
        _FF = ff
    return _FF


def _install_stubs():
    import vermouth.processors.do_links as dl

    def sign(x):
        return (x > 0) - (x < 0)
    dl.sign = sign


MOLS = {
    # name: (resnames, extra edges as ((res, atom), (res, atom)))
    'lin4': (['ALA', 'CYS', 'GLY', 'CYS'],
             [((0, 'BB'), (1, 'BB')), ((1, 'BB'), (2, 'BB')), ((2, 'BB'), (3, 'BB')), ((1, 'SC1'), (3, 'SC1'))]),
    'branch4': (['GLY', 'ALA', 'CYS', 'CYS'],
                [((0, 'BB'), (1, 'BB')), ((1, 'BB'), (2, 'BB')), ((1, 'BB'), (3, 'BB')), ((0, 'BB'), (2, 'SC1'))]),
    'ring3': (['ALA', 'GLY', 'CYS'],
              [((0, 'BB'), (1, 'BB')), ((1, 'BB'), (2, 'BB')), ((2, 'BB'), (0, 'BB'))]),
    'lin3x': (['CYS', 'ALA', 'CYS'],
              [((0, 'BB'), (1, 'BB')), ((1, 'BB'), (2, 'BB')), ((0, 'SC1'), (2, 'SC1')), ((0, 'BB'), (2, 'SC1'))]),
}
POS = [(0.0, 0.0, 0.0), (0.1, 0.3, 0.05), (0.38, 0.02, 0.11), (0.47, 0.33, -0.2), (0.8, 0.1, 0.3), (0.95, 0.45, 0.02),
       (1.2, -0.1, 0.4), (1.31, 0.27, 0.66)]


def build_molecule(name, resids, flag):
    import numpy as np
    from vermouth.molecule import Molecule
    resnames, edges = MOLS[name]
    mol = Molecule(force_field=force_field())
    if flag:
        mol.meta['flag'] = True
    keys = {}
    key = 0
    for ridx, resname in enumerate(resnames):
        for atom in ('BB', 'SC1'):
            mol.add_node(key, atomname=atom, resname=resname, resid=resids[ridx], chain='A',
                         position=np.array(POS[key]))
            keys[(ridx, atom)] = key
            key += 1
        mol.add_edge(keys[(ridx, 'BB')], keys[(ridx, 'SC1')])
    for a, b in edges:
        mol.add_edge(keys[a], keys[b])
    return mol, keys


# ------------------------------------------------------------------------------------------ oracle
def order_kind(order):
    if isinstance(order, str):
        return order[0], len(order)
    return 'n', order


def matrix_rel(o1, r1, o2, r2):
    """The documented 8x8 comparison matrix, transcribed cell by cell. Returns a (possibly symbolic) bool."""
    k1, v1 = order_kind(o1)
    k2, v2 = order_kind(o2)
    lt, gt, eq, ne = r1 < r2, r1 > r2, r1 == r2, r1 != r2
    if k1 in '><' and k2 in '><':
        s1 = v1 if k1 == '>' else -v1
        s2 = v2 if k2 == '>' else -v2
        if s1 == s2:
            return eq
        return lt if s1 < s2 else gt
    if k1 in '><' and k2 == 'n':
        # column 0: the > residue is above the reference, the < residue below; column n (non-zero): not considered
        return b_or(v2 != 0, gt if k1 == '>' else lt)
    if k1 == 'n' and k2 in '><':
        return b_or(v1 != 0, lt if k2 == '>' else gt)
    if k1 == 'n' and k2 == 'n':
        return (v2 - v1) == (r2 - r1)
    if k1 == 'n' and k2 == '*':
        return b_or(v1 != 0, ne)
    if k1 == '*' and k2 == 'n':
        return b_or(v2 != 0, ne)
    if k1 == '*' and k2 == '*':
        return eq if v1 == v2 else ne
    return True      # > vs *, * vs >: not considered


def attrs_match(mol_attrs, link_attrs):
    for key, value in link_attrs.items():
        if key in ('order', 'replace'):
            continue
        if mol_attrs.get(key) != value:
            return False
    return True


def placements(mol, link):
    """All injective placements of the link's atoms that satisfy the concrete conditions (attributes, induced
    connectivity, patterns), each with the symbolic condition on residue numbers (orders, non-edges)."""
    lnodes = list(link.nodes)
    cands = [[m for m in mol.nodes if attrs_match(mol.nodes[m], link.nodes[ln])] for ln in lnodes]
    out = []
    for combo in itertools.product(*cands):
        if len(set(combo)) != len(combo):
            continue
        f = dict(zip(lnodes, combo))
        if any(link.has_edge(u, v) != mol.has_edge(f[u], f[v]) for u, v in itertools.combinations(lnodes, 2)):
            continue
        if link.patterns and not any(all(attrs_match(mol.nodes[f[k]], attrs) for k, attrs in pattern)
                                     for pattern in link.patterns):
            continue
        conds = []
        groups = {}
        for ln in lnodes:
            order = link.nodes[ln].get('order')
            if order is None:
                continue
            resid = mol.nodes[f[ln]]['resid']
            if order in groups:
                conds.append(groups[order] == resid)
            else:
                groups[order] = resid
        for (o1, r1), (o2, r2) in itertools.combinations(groups.items(), 2):
            conds.append(matrix_rel(o1, r1, o2, r2))
        for from_node, to_attrs in link.non_edges:
            if from_node not in link:
                continue
            anchor = f[from_node]
            for nb in mol.neighbors(anchor):
                if attrs_match(mol.nodes[nb], to_attrs):
                    conds.append(mol.nodes[nb]['resid'] != mol.nodes[anchor]['resid'] + to_attrs.get('order', 0))
        out.append((f, b_and(*conds) if conds else True))
    return out


def _dihedral(p):
    import numpy as np
    b0, b1, b2 = p[1] - p[0], p[2] - p[1], p[3] - p[2]
    # IUPAC/GROMACS convention: atan2(|b1| b0.(b1 x b2), (b0 x b1).(b1 x b2))
    y = float(np.linalg.norm(b1) * np.dot(b0, np.cross(b1, b2)))
    x = float(np.dot(np.cross(b0, b1), np.cross(b1, b2)))
    return math.degrees(math.atan2(y, x))


def expected_params(mol, interaction, f):
    import numpy as np
    from vermouth.molecule import ParamDihedral, ParamDistance
    out = []
    for param in interaction.parameters:
        if isinstance(param, ParamDihedral):
            pts = [np.array(mol.nodes[f[k]]['position']) for k in param.keys]
            out.append(('geom', _dihedral(pts)))
        elif isinstance(param, ParamDistance):
            pts = [np.array(mol.nodes[f[k]]['position']) for k in param.keys]
            out.append(('geom', float(np.linalg.norm(pts[1] - pts[0]))))
        else:
            out.append(('lit', param))
    return out


def params_equal(expected, actual):
    if len(expected) != len(actual):
        return False
    for (kind, want), got in zip(expected, actual):
        if kind == 'lit':
            if want != got:
                return False
        else:
            try:
                value = float(got)
            except (TypeError, ValueError):
                return False
            if abs(value - want) > 1e-2 + 1e-4 * abs(want):
                return False
    return True


def check_dolinks(r0: int, r1: int, r2: int, r3: int) -> str:
    """
    pre: PART.get('lo', -10**9) <= r1 - r0 <= PART.get('hi', 10**9)
    post: _ == ''
    """
    from vermouth.processors.do_links import DoLinks
    _install_stubs()
    ff = force_field()
    links = [ff.links[i] for i in PART['links']]
    name = PART['mol']
    resids = [r0, r1, r2, r3][:len(MOLS[name][0])]
    mol, keys = build_molecule(name, resids, PART.get('flag', False))
    reference, _ = build_molecule(name, resids, PART.get('flag', False))
    saved_links = ff.links
    ff.links = links
    try:
        DoLinks().run_molecule(mol)
    finally:
        ff.links = saved_links
    # ---- expected events per (type, atoms) key, in application order
    events = {}
    tags = {}
    flag_ok = {}
    for lidx, link in enumerate(links):
        meta_ok = all(reference.meta.get(k) == v for k, v in link.molecule_meta.items())
        if not meta_ok:
            continue
        for f, cond in placements(reference, link):
            for ln, lattrs in link.nodes.items():
                if 'replace' in lattrs:
                    for attr, value in lattrs['replace'].items():
                        tags.setdefault((f[ln], attr, value), []).append(cond)
            for itype, inters in link.removed_interactions.items():
                for inter in inters:
                    atoms = tuple(f[a] for a in inter.atoms)
                    events.setdefault((itype, atoms, 0), []).append((cond, 'del', None))
            for itype, inters in link.interactions.items():
                for inter in inters:
                    atoms = tuple(f[a] for a in inter.atoms)
                    events.setdefault((itype, atoms, inter.meta.get('version', 0)), []).append(
                        (cond, 'set', expected_params(reference, inter, f)))
    # ---- compare
    actual = {}
    for itype, inters in mol.interactions.items():
        for inter in inters:
            key = (itype, tuple(inter.atoms), inter.meta.get('version', 0))
            if key in actual:
                return 'the same interaction is present twice'
            actual[key] = inter
    for key in actual:
        if key not in events:
            return 'an interaction exists that no placement of any link justifies'
    agreement = []
    for key, evs in events.items():
        have = actual.get(key)
        state_ok = have is None
        for cond, kind, params in evs:
            if kind == 'del':
                matches = have is None
            else:
                matches = have is not None and params_equal(params, have.parameters)
            state_ok = b_or(b_and(cond, matches), b_and(b_not(cond), state_ok))
        agreement.append(state_ok)
    for (node, attr, value), conds in tags.items():
        agreement.append(b_eq(b_or(*conds), mol.nodes[node].get(attr) == value))
    if not b_and(*agreement):
        return 'interactions/attributes after DoLinks differ from what the admissible placements justify'
    for node in mol.nodes:
        for attr in mol.nodes[node]:
            if attr not in reference.nodes[node] and not any(t[0] == node and t[1] == attr for t in tags):
                return 'an attribute appeared that no link replaces'
    if set(mol.nodes) != set(reference.nodes) or set(map(frozenset, mol.edges)) != set(map(frozenset, reference.edges)):
        return 'atoms or bonds of the molecule changed'
    return ok()


KINDS = [('n', None), ('>', 1), ('>', 2), ('>', 3), ('<', 1), ('<', 2), ('<', 3), ('*', 1), ('*', 2), ('*', 3)]


def _mk_order(kind, sym):
    ch, k = kind
    return sym if ch == 'n' else ch * k


def check_match_order(n1: int, resid1: int, n2: int, resid2: int) -> str:
    """
    pre: -8 <= n1 <= 8 and -8 <= n2 <= 8
    post: _ == ''
    """
    from vermouth.processors.do_links import match_order
    _install_stubs()
    o1 = _mk_order(tuple(PART['k1']), n1)
    o2 = _mk_order(tuple(PART['k2']), n2)
    got = match_order(o1, resid1, o2, resid2)
    want = matrix_rel(o1, resid1, o2, resid2)
    if not b_eq(got, want):
        return 'match_order disagrees with the documented comparison matrix'
    return ok()


def check_order_syntax(order: str) -> str:
    """
    pre: len(order) <= 3
    pre: all(ch in '><*+' for ch in order)
    post: _ == ''
    """
    from vermouth.processors.do_links import _interpret_order
    valid = len(order) > 0 and all(ch == order[0] for ch in order) and order[0] in '><*'
    try:
        kind, value = _interpret_order(order)
    except ValueError:
        return ok() if not valid else 'valid order string rejected'
    if not valid:
        return 'malformed order string accepted'
    want = {'>': ('><', len(order)), '<': ('><', -len(order)), '*': ('*', len(order))}[order[0]]
    if (kind, value) != want:
        return 'order string interpreted wrongly'
    return ok()


def check_order_number(n: int, as_bool: bool) -> str:
    """
    pre: -64 <= n <= 64
    post: _ == ''
    """
    from vermouth.processors.do_links import _interpret_order
    if PART.get('bool'):
        try:
            _interpret_order(as_bool)
        except ValueError:
            return ok()
        return 'boolean accepted as order'
    kind, value = _interpret_order(n)
    if kind != 'number' or value != n:
        return 'integer order not kept as given'
    return ok()


def warmup():
    global PART
    saved = PART
    force_field()
    for name in MOLS:
        PART = {'mol': name, 'links': list(range(NLINKS)), 'flag': True}
        res = check_dolinks(1, 2, 3, 4)
        assert res == ok(), (name, res)
        PART = {'mol': name, 'links': [5, 9, 0, 6, 8, 4, 7], 'flag': False}
        res = check_dolinks(7, 3, 4, 5)
        assert res == ok(), (name, res)
    PART = {'k1': ['n', None], 'k2': ['>', 2]}
    assert check_match_order(0, 5, 0, 9) == ok()
    PART = {}
    assert check_order_syntax('>>') == ok()
    assert check_order_number(3, False) == ok()
    PART = saved


def selftest(seed):
    import random
    global PART
    rng = random.Random(seed)
    failures = []
    runs = 0
    for _ in range(60):
        name = rng.choice(list(MOLS))
        n = rng.randint(1, NLINKS)
        PART = {'mol': name, 'links': rng.sample(range(NLINKS), n), 'flag': rng.random() < 0.5}
        base = rng.randint(-3, 50)
        resids = [base]
        for _ in range(3):
            resids.append(resids[-1] + rng.choice([1, 1, 1, 2, -1, 0, 5]))
        rng.shuffle(resids) if rng.random() < 0.2 else None
        res = check_dolinks(*resids)
        runs += 1
        if res != ok():
            failures.append('check_dolinks%r part=%r -> %s' % (tuple(resids), PART, res))
    for _ in range(300):
        PART = {'k1': list(rng.choice(KINDS)), 'k2': list(rng.choice(KINDS))}
        vals = [rng.randint(-2, 2), rng.randint(0, 6), rng.randint(-2, 2), rng.randint(0, 6)]
        res = check_match_order(*vals)
        runs += 1
        if res != ok():
            failures.append('check_match_order%r part=%r -> %s' % (tuple(vals), PART, res))
    return {'runs': runs, 'failures': failures[:3]}


def cases(tier):
    out = []
    for k1 in KINDS:
        for k2 in KINDS:
            out.append({'fn': 'check_match_order', 'part': {'k1': list(k1), 'k2': list(k2)},
                        'label': 'match_order[%s%s|%s%s]' % (k1[0], k1[1] or '', k2[0], k2[1] or ''), 'timeout': 120,
                        'twin': k1 == k2})
    out.append({'fn': 'check_order_syntax', 'part': {}, 'label': 'order-syntax', 'timeout': 200})
    out.append({'fn': 'check_order_number', 'part': {}, 'label': 'order-number', 'timeout': 60})
    out.append({'fn': 'check_order_number', 'part': {'bool': True}, 'label': 'order-bool', 'timeout': 60})
    if tier == 'quick':
        link_sets = [[0, 1, 3], [2, 4, 0], [5, 6, 0], [7, 8, 9]]
    else:
        link_sets = [list(range(NLINKS)), list(range(NLINKS))[::-1]] + [[i + 1, i] for i in range(0, NLINKS - 1, 2)]
    windows = [(None, -2), (-1, -1), (0, 0), (1, 1), (2, None)]
    if tier == 'quick':
        combos = [('lin4', [0, 1, 3]), ('lin4', [5, 6, 0]), ('branch4', [2, 4, 0]), ('branch4', [7, 8, 9]), ('branch4', [10, 0]), ('ring3', [10]),
                  ('lin3x', [7, 8, 9]), ('lin3x', [2, 4, 0]), ('ring3', [0, 1, 3])]
    else:
        combos = [(name, links) for name in MOLS for links in link_sets]
    for name, links in combos:
        if True:
            for flag in ((True,) if 4 not in links else (True, False)):
                for lo, hi in windows:
                    part = {'mol': name, 'links': links, 'flag': flag}
                    if lo is not None:
                        part['lo'] = lo
                    if hi is not None:
                        part['hi'] = hi
                    out.append({'fn': 'check_dolinks', 'part': part,
                                'label': 'dolinks[%s|%s|f%d|d%s..%s]' % (name, ''.join(map(str, links)), flag, lo, hi),
                                'timeout': 600, 'path_timeout': 60, 'twin': lo == 1 and flag})
    return out
