"""C10 - guessed bonds obey the stated criteria and never split or lose residues.

Real code executed on proxy reals (engine E2): _bonds_from_distance, _bonds_from_names, make_bonds,
MakeBonds.run_system, graph_utils.collect_residues / partition_graph.  scipy's KDTree is replaced by a model of
its documented contract (sparse_distance_matrix(r) = all pairs with distance <= r).
"""
import itertools

from engine.common import ok, RecLogger, open_findings

PART = {}

META = {
    'engine': 'E2 symnum (proxy execution over z3 reals)',
    'functions': ['vermouth.processors.make_bonds._bonds_from_distance', '_bonds_from_names', 'make_bonds', 'MakeBonds.run_system',
                  'vermouth.graph_utils.collect_residues', 'vermouth.graph_utils.partition_graph'],
    'bounds': {
        'quick': 'kernel: every pair of elements out of {H, C, O, S, Se, no-radius} x same/different residue x listed '
                 'non-bond x pre-existing bond, real-valued separation and fudge factor > 0; end to end: 9 system scenarios '
                 '(known / incomplete / extended / unknown / duplicate-name residues, two molecules with identical residue '
                 'identity, two residues, hydrogens) of <= 4 atoms on a line x name/distance modes x 2 atom orders, '
                 'real-valued coordinates and fudge factor',
        'thorough': 'same scenarios with every atom order',
    },
    'stubs': ['scipy.spatial.KDTree as seen from make_bonds -> model honouring its contract: sparse_distance_matrix(other, r) '
              '= {(i, j): |pi - pj|  for all i != j with |pi - pj| <= r}',
              'make_bonds.np -> NPShim (np.array(dtype=float) keeps proxies)', 'make_bonds.LOGGER -> recorder'],
    'assumptions': ['ideal real arithmetic; atoms on a line; van der Waals radii of the oracle: Bondi 1964 (H 0.120, C 0.170, '
                    'N 0.155, O 0.152, S 0.180, Se 0.190, P 0.180 nm)',
                    'two atoms at exactly the same position are outside (scipy drops zero distances from its sparse result)'],
    'outside': ['3-D geometry', 'systems of more than 4 atoms', 'floating-point rounding at the threshold'],
}

BONDI = {'H': 0.120, 'C': 0.170, 'N': 0.155, 'O': 0.152, 'S': 0.180, 'Se': 0.190, 'P': 0.180}
ELEMENTS = ['H', 'C', 'O', 'S', 'Se', 'X']


class KDTreeModel:
    def __init__(self, positions):
        self.p = positions

    def sparse_distance_matrix(self, other, r):
        from engine.symnum import SymReal, as_sym
        out = {}
        n = len(self.p)
        for i in range(n):
            for j in range(n):
                if i == j:
                    continue
                sq = sum(((self.p[i][k] - other.p[j][k]) * (self.p[i][k] - other.p[j][k]) for k in range(3)), 0)
                if isinstance(sq, SymReal):
                    d = sq.sqrt()
                    if bool(d == 0):
                        continue
                else:
                    import math
                    d = math.sqrt(float(sq))
                    if d == 0:
                        continue
                if d <= r:
                    out[(i, j)] = d
        return out


def _install(ctx, recorder):
    import numpy
    import scipy.spatial
    import vermouth.processors.make_bonds as mb
    from engine.symnum import NPShim
    if ctx.symbolic:
        mb.np = NPShim()
        mb.KDTree = KDTreeModel
    else:
        mb.np = numpy
        mb.KDTree = scipy.spatial.KDTree
    mb.LOGGER = recorder
    return mb


def _vec(ctx, x):
    import numpy as np
    if ctx.symbolic:
        from engine.symnum import wrap, as_sym
        return wrap(np.array([as_sym(x), as_sym(0), as_sym(0)], dtype=object))
    return np.array([float(x), 0.0, 0.0])


def _crit(ctx, e1, e2, same_res, d, fudge):
    """The distance criterion of the statement with Bondi radii. Returns bool / symbolic bool."""
    if e1 not in BONDI or e2 not in BONDI:
        return False
    if e1 == 'H' and e2 == 'H':
        return False
    if not same_res and 'H' in (e1, e2):
        return False
    threshold = fudge * (0.5 * (BONDI[e1] + BONDI[e2]))
    return d <= threshold


def _carved(ctx, e1, e2, fudge):
    """Known findings while open: the Se radius and fudge factors below 1."""
    conds = []
    open_ids = open_findings('C10')
    if 'C10-se-radius' in open_ids and 'Se' in (e1, e2):
        return True
    return False


def run_kernel(ctx):
    import networkx as nx
    recorder = RecLogger()
    mb = _install(ctx, recorder)
    e1, e2 = PART['e1'], PART['e2']
    same_res, nonedge, pre = PART['same_res'], PART['nonedge'], PART['pre']
    x = ctx.real('x')
    fudge = ctx.real('fudge', lo=0)
    ctx.assume(fudge > 0)
    ctx.assume(ctx.neg(x == 0))
    if 'C10-search-radius' in open_findings('C10'):
        ctx.assume(fudge >= 1)
    g = nx.Graph()
    g.add_node(0, element=e1, position=_vec(ctx, 0), _res_serial=0, atomname='A', resname='R', resid=1, chain='A')
    g.add_node(1, element=e2, position=_vec(ctx, x), _res_serial=0 if same_res else 1, atomname='B', resname='R', resid=1, chain='A')
    if pre:
        g.add_edge(0, 1, tag='old')
    mb._bonds_from_distance(g, non_edges={frozenset((0, 1))} if nonedge else None, fudge=fudge)
    has = g.has_edge(0, 1)
    d = ctx.abs(x)
    want = ctx.any([pre, ctx.all([not nonedge, _crit(ctx, e1, e2, same_res, d, fudge)])])
    ctx.claim(ctx.iff(has, want), 'distance-based bond %s-%s added/omitted against the stated criteria' % (e1, e2))
    if pre:
        ctx.claim(g.edges[0, 1].get('tag') == 'old', 'pre-existing bond replaced')
    ctx.claim(len(g) == 2, 'atoms lost')
    ctx.observe('edge', has)


# ------------------------------------------------------------------------------------------ end to end
# atom = (molecule index, chain, resid, resname, atomname, element); pre = pre-existing bonds (atom indices)
SCENARIOS = {
    'known3': dict(atoms=[(0, 'A', 1, 'RES', 'A', 'C'), (0, 'A', 1, 'RES', 'B', 'C'), (0, 'A', 1, 'RES', 'C', 'O')], pre=[]),
    'incomplete': dict(atoms=[(0, 'A', 1, 'RES', 'A', 'C'), (0, 'A', 1, 'RES', 'C', 'O')], pre=[]),
    'extended': dict(atoms=[(0, 'A', 1, 'RES', 'A', 'C'), (0, 'A', 1, 'RES', 'B', 'C'), (0, 'A', 1, 'RES', 'Z', 'S')], pre=[]),
    'extendedH': dict(atoms=[(0, 'A', 1, 'RES', 'A', 'C'), (0, 'A', 1, 'RES', 'C', 'O'), (0, 'A', 1, 'RES', 'HZ', 'H')], pre=[]),
    'unknown': dict(atoms=[(0, 'A', 1, 'UNK', 'A', 'C'), (0, 'A', 1, 'UNK', 'B', 'O'), (0, 'A', 2, 'RES', 'A', 'C')], pre=[]),
    'duplicate': dict(atoms=[(0, 'A', 1, 'RES', 'A', 'C'), (0, 'A', 1, 'RES', 'A', 'C'), (0, 'A', 1, 'RES', 'B', 'C')], pre=[]),
    'twomol': dict(atoms=[(0, 'A', 1, 'RES', 'A', 'C'), (1, 'A', 1, 'RES', 'B', 'C'), (1, 'A', 1, 'RES', 'HZ', 'H')], pre=[]),
    'tworesidues': dict(atoms=[(0, 'A', 1, 'RES', 'A', 'C'), (0, 'A', 1, 'RES', 'B', 'C'), (0, 'A', 2, 'RES', 'A', 'C'),
                               (0, 'B', 2, 'RES', 'A', 'C')], pre=[(0, 3)]),
    'hydrogens': dict(atoms=[(0, 'A', 1, 'UNK', 'A', 'C'), (0, 'A', 1, 'UNK', 'H1', 'H'), (0, 'A', 1, 'UNK', 'H2', 'H'),
                             (0, 'A', 2, 'UNK', 'O', 'O')], pre=[]),
    'sulfur': dict(atoms=[(0, 'A', 1, 'UNK', 'S1', 'S'), (1, 'B', 2, 'UNK', 'S2', 'S'), (1, 'B', 3, 'UNK', 'C1', 'C')], pre=[]),
    'noradius': dict(atoms=[(0, 'A', 1, 'UNK', 'A', 'C'), (0, 'A', 1, 'UNK', 'M', 'X'), (0, 'A', 2, 'UNK', 'SE', 'Se')], pre=[]),
}
BLOCK_EDGES = [('A', 'B'), ('B', 'C')]
BLOCK_ATOMS = ['A', 'B', 'C']


def _force_field():
    from vermouth.forcefield import ForceField
    from vermouth.molecule import Block
    ff = ForceField(name='c10')
    block = Block(force_field=ff)
    block.name = 'RES'
    for name in BLOCK_ATOMS:
        block.add_node(name, atomname=name, resname='RES')
    block.add_edges_from(BLOCK_EDGES)
    ff.blocks['RES'] = block
    return ff


def run_system(ctx):
    import networkx as nx
    from vermouth.molecule import Molecule
    from vermouth.system import System
    recorder = RecLogger()
    mb = _install(ctx, recorder)
    scen = SCENARIOS[PART['scenario']]
    atoms = scen['atoms']
    order = PART['order']
    allow_name, allow_dist = PART['name'], PART['dist']
    n = len(atoms)
    xs = [ctx.real('x%d' % i) for i in range(n)]
    fudge = ctx.real('fudge', lo=0)
    ctx.assume(fudge > 0)
    for i, j in itertools.combinations(range(n), 2):
        ctx.assume(ctx.neg(xs[i] == xs[j]))
    if 'C10-search-radius' in open_findings('C10'):
        ctx.assume(fudge >= 1)
    ff = _force_field()
    system = System(force_field=ff)
    nmol = 1 + max(a[0] for a in atoms)
    mols = [Molecule(force_field=ff) for _ in range(nmol)]
    where = {}
    for i in order:
        midx, chain, resid, resname, atomname, element = atoms[i]
        key = len(mols[midx])
        mols[midx].add_node(key, chain=chain, resid=resid, resname=resname, atomname=atomname, element=element,
                            position=_vec(ctx, xs[i]), tag=i)
        where[i] = (midx, key)
    for a, b in scen['pre']:
        if where[a][0] == where[b][0]:
            mols[where[a][0]].add_edge(where[a][1], where[b][1], tag='old')
    system.molecules = mols
    proc = mb.MakeBonds(allow_name=allow_name, allow_dist=allow_dist, fudge=fudge)
    proc.run_system(system)
    out = system.molecules
    # ---- every atom exactly once
    seen = {}
    for oidx, mol in enumerate(out):
        for key, attrs in mol.nodes.items():
            if attrs['tag'] in seen:
                ctx.claim(False, 'an atom appears in two output molecules')
            seen[attrs['tag']] = (oidx, key)
    ctx.claim(sorted(seen) == list(range(n)), 'an atom was lost (or invented)')
    edges = set()
    for mol in out:
        for a, b in mol.edges:
            edges.add(frozenset((mol.nodes[a]['tag'], mol.nodes[b]['tag'])))
    for a, b in scen['pre']:
        ctx.claim(frozenset((a, b)) in edges, 'a pre-existing bond was lost')
    # ---- which pairs must be bonded
    residue = {i: (atoms[i][0], atoms[i][1], atoms[i][2], atoms[i][3]) for i in range(n)}
    members = {}
    for i in range(n):
        members.setdefault(residue[i], []).append(i)
    name_resolved = {}
    for res, idxs in members.items():
        names = [atoms[i][4] for i in idxs]
        name_resolved[res] = allow_name and res[3] == 'RES' and len(set(names)) == len(names)
    warn_expected = sum(1 for res in members if allow_name and not name_resolved[res])
    for i, j in itertools.combinations(range(n), 2):
        pair = frozenset((i, j))
        pre = (i, j) in scen['pre'] or (j, i) in scen['pre']
        same = residue[i] == residue[j]
        name_bond = False
        non_edge = False
        if same and name_resolved[residue[i]]:
            ni, nj = atoms[i][4], atoms[j][4]
            if ni in BLOCK_ATOMS and nj in BLOCK_ATOMS:
                name_bond = (ni, nj) in BLOCK_EDGES or (nj, ni) in BLOCK_EDGES
                non_edge = not name_bond
        d = ctx.abs(xs[i] - xs[j])
        crit = _crit(ctx, atoms[i][5], atoms[j][5], same, d, fudge) if allow_dist else False
        if _carved(ctx, atoms[i][5], atoms[j][5], fudge):
            continue
        want = ctx.any([pre, name_bond, ctx.all([not non_edge, crit])])
        ctx.claim(ctx.iff(pair in edges, want),
                  'bond between atoms %d and %d (%s, %s) added/omitted against the stated criteria' % (i, j, atoms[i][4], atoms[j][4]))
    # ---- partition: residues whole, molecules = connected components of the residue graph
    for res, idxs in members.items():
        ctx.claim(len({seen[i][0] for i in idxs if i in seen}) <= 1, 'a residue was split over two molecules')
    rg = nx.Graph()
    rg.add_nodes_from(members)
    for pair in edges:
        i, j = tuple(pair)
        if residue[i] != residue[j]:
            rg.add_edge(residue[i], residue[j])
    comp = {}
    for cidx, nodes in enumerate(nx.connected_components(rg)):
        for res in nodes:
            comp[res] = cidx
    for i, j in itertools.combinations(range(n), 2):
        if i in seen and j in seen:
            ctx.claim((seen[i][0] == seen[j][0]) == (comp[residue[i]] == comp[residue[j]]),
                      'atoms %d and %d: molecules do not follow the connectivity of the residues' % (i, j))
    ctx.claim(len(recorder.types(levels=('WARNING',))) == warn_expected, 'warnings do not match the residues that could not be resolved by name')
    ctx.observe('edges', sorted(tuple(sorted(p)) for p in edges))


def _values_for(fn, rng):
    from engine.symnum import ConcreteCtx

    class Sampler(ConcreteCtx):
        def real(self, name, lo=None, hi=None):
            if name not in self.values:
                if name == 'fudge':
                    self.values[name] = rng.choice([1.0, 1.2, 1.5, 2.0])
                else:
                    self.values[name] = round(rng.uniform(-0.4, 0.4), 3) or 0.05
            return float(self.values[name])
    ctx = Sampler({})
    try:
        fn(ctx)
    except Exception:
        pass
    return ctx.values


def selftest(seed):
    import random
    from engine.symnum import run_concrete, differential
    global PART
    rng = random.Random(seed)
    runs, failures = 0, []
    for case in cases('quick')[::11]:
        PART = dict(case['part'])
        fn = globals()[case['fn']]
        for _ in range(2):
            values = _values_for(fn, rng)
            fails, _ = run_concrete(fn, values)
            runs += 1
            if fails:
                failures.append('%s native %r: %s' % (case['label'], values, fails[:1]))
            diff = differential(fn, values)
            runs += 1
            if diff not in ('', 'skipped'):
                failures.append('%s differential %r: %s' % (case['label'], values, diff))
    return {'runs': runs, 'failures': failures[:3]}


def warmup():
    pass


def cases(tier):
    out = []
    for e1, e2 in itertools.product(ELEMENTS, repeat=2):
        for same_res, nonedge, pre in itertools.product((True, False), repeat=3):
            out.append({'fn': 'run_kernel', 'engine': 'sn', 'timeout': 120,
                        'part': dict(e1=e1, e2=e2, same_res=same_res, nonedge=nonedge, pre=pre),
                        'label': 'kernel[%s-%s same%d non%d pre%d]' % (e1, e2, same_res, nonedge, pre),
                        'twin': e1 == 'C' and e2 == 'O'})
    for name, scen in SCENARIOS.items():
        n = len(scen['atoms'])
        orders = list(itertools.permutations(range(n)))
        if tier == 'quick':
            orders = [orders[0], orders[-1]]
        for order in orders:
            for allow_name, allow_dist in ((True, True), (True, False), (False, True)):
                out.append({'fn': 'run_system', 'engine': 'sn', 'timeout': 900,
                            'part': dict(scenario=name, order=list(order), name=allow_name, dist=allow_dist),
                            'label': 'system[%s order%s name%d dist%d]' % (name, ''.join(map(str, order)), allow_name, allow_dist),
                            'twin': allow_name and allow_dist and order == orders[0]})
    return out
