#!/bin/bash
# Offline set-up: overlay venv on top of /venv (which holds vermouth's deps) with crosshair-tool + z3-solver
# from the local wheelhouse.  Idempotent.
set -e
cd "$(dirname "$0")"
V="$(pwd)/.venv"
if [ ! -x "$V/bin/python" ] || ! "$V/bin/python" -c 'import crosshair, z3, networkx, numpy' 2>/dev/null; then
  rm -rf "$V"
  /venv/bin/python -m venv "$V"
  SP=$("$V/bin/python" -c 'import site; print(site.getsitepackages()[0])')
  printf '/venv/lib/python3.12/site-packages\n/repo\n' > "$SP/overlay.pth"
  PIP_NO_INDEX=1 "$V/bin/pip" install -q --no-index --find-links /opt/veriftools/wheels crosshair-tool z3-solver
fi
"$V/bin/python" -c 'import crosshair, z3, vermouth, networkx, numpy, scipy; print("setup ok", z3.get_version_string())'
