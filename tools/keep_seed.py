#!/usr/bin/env python3
"""tools/keep_seed.py <PROP> <m-dir> <name> <detected: yes|no|inconclusive> <note>
Copy a confirmed seeded change into /verif/seeded/<PROP>-<name>/ and record what was run."""
import json, os, shutil, sys
prop, src, name, detected, note = sys.argv[1:6]
dst = '/verif/seeded/%s-%s' % (prop, name)
os.makedirs(dst, exist_ok=True)
shutil.copy(os.path.join(src, 'patch.diff'), dst)
shutil.copy(os.path.join(src, 'demo.py'), dst)
meta = json.load(open(os.path.join(src, 'meta.json')))
meta.update({'property': prop, 'confirmed': 'tools/seedcheck.sh: demo exits 0 on clean tree, non-zero with the change; '
             'tools/baseline.py: all 2096 baseline tests still pass with the change',
             'check_run': './vcheck %s --tier quick with the patch applied to /repo (git apply; reverted afterwards)' % prop,
             'detected_by_check': detected, 'note': note})
json.dump(meta, open(os.path.join(dst, 'meta.json'), 'w'), indent=1)
print(dst)
