#!/verif/.venv/bin/python
"""Regenerate MANIFEST.json from the harness modules' META and the not-applicable table."""
import importlib, json, os, sys
VERIF = os.path.dirname(os.path.dirname(os.path.abspath(__file__)))
sys.path.insert(0, VERIF)
from engine.driver import register

NOT_APPLICABLE = {
    'C06': "ISMAGS' whole state is hash sets/dicts of node identities; no integer/string/real data for a solver to "
           "reason about, and CrossHair cannot trace the module (unbound set.intersection on its set proxies). "
           "Symbolic execution degenerates into enumerating concrete graph pairs (<= 4-5 nodes, shallower than the "
           "existing hypothesis test). See DESIGN.md section 5.",
    'C11': "Statement about pairs of whole-pipeline runs on real force fields and about interpreter hash seeds; "
           "whole-program runs over KD-trees, ~1000 blocks and transcendental geometry are not encodable, and "
           "PYTHONHASHSEED is not an input of any function. Encodable ingredients are claimed under C02/C03/C04/C09/C15. "
           "See DESIGN.md section 5.",
}
ALL = ['C%02d' % i for i in range(1, 20)]

def main():
    reg = register()
    checks = []
    engines = {}
    for prop in ALL:
        if prop not in reg:
            continue
        mod = importlib.import_module(reg[prop])
        meta = mod.META
        if meta.get('disabled'):
            continue
        eng = 'E2-symnum' if meta.get('engine', '').startswith('E2') else 'E1-crosshair'
        engines.setdefault(eng, []).append(prop)
        checks.append({
            'property_id': prop,
            'quick_cmd': './vcheck %s --tier quick' % prop,
            'thorough_cmd': './vcheck %s --tier thorough' % prop,
            'evidence_file': 'evidence/%s.json' % prop,
            'replay_cmd_template': './vcheck --replay {path}',
            'engine': eng,
            'level_claimed': {
                'category': 'model_checking',
                'text': meta.get('level_text', 'Bounded symbolic execution of the real functions: within the stated shape '
                                               'bounds the SMT solver decides the property for every data value on every '
                                               'explored path; nothing is claimed outside the bounds.'),
                'design_ref': 'DESIGN.md section 3, %s' % prop,
            },
            'level_note': meta.get('level_note', '; '.join(list(meta.get('stubs', [])) + list(meta.get('assumptions', [])))),
            'technique': meta.get('technique', 'bounded symbolic execution of the real Python functions (CrossHair + z3), '
                                               'solver models replayed natively'),
        })
    na = [{'property_id': p, 'reason': r} for p, r in NOT_APPLICABLE.items()]
    for prop in ALL:
        if prop not in reg and prop not in NOT_APPLICABLE:
            na.append({'property_id': prop, 'reason': 'check not built yet (planned in DESIGN.md section 3); not claimed at this commit'})
    manifest = {
        'version': 1,
        'setup_cmd': './setup.sh',
        'hooks': {
            'guard': 'VERMOUTH_VERIF',
            'enable': 'no source hooks: all interposition is monkey-patching from the harness process (VERMOUTH_VERIF=1 is exported by ./vcheck for completeness)',
            'baseline_off_cmd': 'cd /repo && /venv/bin/python -m pytest -ra -q -p no:cacheprovider --timeout=900 --continue-on-collection-errors',
            'source_commits': [],
            'add_only': True,
        },
        'engines': [
            {'name': 'E1-crosshair', 'path': 'engine/worker.py', 'serves_properties': engines.get('E1-crosshair', []),
             'kind_free_text': 'CrossHair 0.0.110 symbolic execution of the real vermouth functions with z3 5.1; driver partitions shape selectors over 16 worker processes; models replayed natively'},
            {'name': 'E2-symnum', 'path': 'engine/symnum.py', 'serves_properties': engines.get('E2-symnum', []),
             'kind_free_text': 'own proxy-execution engine: real numpy code runs on z3-real-valued proxy scalars/arrays, DFS over branch decisions with z3 feasibility, property discharged per path (QF_NRA)'},
        ],
        'checks': checks,
        'not_applicable': sorted(na, key=lambda d: d['property_id']),
        'notes': 'Every check is bounded; bounds, stubs and what lies outside are in evidence/<id>.json and DESIGN.md. '
                 'Exit 2 = inconclusive (never reported as success or as violation). Known findings: known_findings.json.',
    }
    with open(os.path.join(VERIF, 'MANIFEST.json'), 'w') as handle:
        json.dump(manifest, handle, indent=1)
        handle.write('\n')
    print('MANIFEST.json:', len(checks), 'checks;', len(na), 'not applicable'); return
    print('MANIFEST.json:', len(checks), 'checks;', len(na), 'not applicable')

main()
