#!/usr/bin/env python3
"""Run the repository's pinned test suite (guard off) in a checkout and compare with /root/.vp/BASELINE.json.
usage: tools/baseline.py [checkout-dir]   (default /repo)"""
import json, subprocess, sys, tempfile, os, xml.etree.ElementTree as ET
root = sys.argv[1] if len(sys.argv) > 1 else '/repo'
base = json.load(open('/root/.vp/BASELINE.json'))
want = set(base['stable_pass'])
with tempfile.TemporaryDirectory() as tmp:
    xml = os.path.join(tmp, 'r.xml')
    env = {k: v for k, v in os.environ.items() if k != 'VERMOUTH_VERIF'}
    subprocess.run(['/venv/bin/python', '-m', 'pytest', '-ra', '-q', '-p', 'no:cacheprovider', '--timeout=900',
                    '--continue-on-collection-errors', '-x' if False else '-q', '--junitxml=' + xml], cwd=root, env=env,
                   stdout=subprocess.DEVNULL, stderr=subprocess.DEVNULL)
    passed = set()
    for case in ET.parse(xml).getroot().iter('testcase'):
        if not any(child.tag in ('failure', 'error', 'skipped') for child in case):
            passed.add('%s::%s' % (case.get('classname'), case.get('name')))
missing = sorted(want - passed)
print('baseline stable_pass: %d, passed now: %d, missing: %d' % (len(want), len(passed), len(missing)))
for m in missing[:20]:
    print('  MISSING', m)
sys.exit(1 if missing else 0)
