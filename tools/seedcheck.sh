#!/bin/bash
# tools/seedcheck.sh <PROP> <mutant-dir> [tier]
# 1. validates the seeded change in a scratch worktree (tests still pass, demo fails with / passes without)
# 2. applies it to /repo, runs the check of the property, reverts /repo.
P=$1; D=$2; TIER=${3:-quick}
WT=/tmp/wt/seedcheck_$$
set -u
git -C /repo worktree add -q $WT HEAD || exit 3
cleanup() { git -C /repo worktree remove --force $WT 2>/dev/null; }
trap cleanup EXIT
cd $WT
/venv/bin/python $D/demo.py >/dev/null 2>&1; echo "demo on clean tree: exit $?"
git apply $D/patch.diff || { echo "PATCH DOES NOT APPLY"; exit 3; }
/venv/bin/python $D/demo.py >/dev/null 2>&1; echo "demo with change:   exit $?"
if [ -z "${SKIP_TESTS:-}" ]; then python3 /verif/tools/baseline.py $WT | head -3; fi
cd /verif
if [ -n "$(git -C /repo status --porcelain)" ]; then echo "/repo not clean"; exit 3; fi
git -C /repo apply $D/patch.diff
./vcheck $P --tier $TIER --no-evidence 2>&1 | grep -E "VIOLATION|INCONCLUSIVE|^C[0-9]+ " | cut -c1-400 | head -8
echo "check exit: ${PIPESTATUS[0]}"
git -C /repo checkout -- .
