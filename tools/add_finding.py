#!/verif/.venv/bin/python
"""tools/add_finding.py <id> <property> <open|fixed> <commit|-> <module> <fn> <part-json> <args-json> <what> <predicate>
Adds/updates an entry of known_findings.json and writes its concrete replay under known/ (done by hand, never at check time)."""
import json, os, shutil, sys
sys.path.insert(0, '/verif')
from engine.driver import write_replay
fid, prop, status, commit, module, fn, part, args, what, predicate = sys.argv[1:11]
model = json.loads(sys.argv[11]) if len(sys.argv) > 11 else None
path = write_replay(prop, module, fn, json.loads(part), json.loads(args), {}, what, engine='sn' if model else 'ch', model=model)
dst = '/verif/known/%s.py' % fid
shutil.move(path, dst)
data = json.load(open('/verif/known_findings.json'))
data['findings'] = [f for f in data['findings'] if f['id'] != fid]
entry = {'id': fid, 'property': prop, 'status': status, 'what': what, 'predicate': predicate, 'replay': 'known/%s.py' % fid}
if status == 'fixed':
    entry['commit'] = commit
    entry['fixed_line'] = 'fixed: property=%s %s %s' % (prop, commit, what)
data['findings'].append(entry)
json.dump(data, open('/verif/known_findings.json', 'w'), indent=1)
print(dst)
