"""Persistent analysis worker.  Reads one JSON task per line on stdin, writes one JSON result per line
on the real stdout (fd saved at start; everything the harness prints goes to stderr).

Task: {id, module, fn, part, engine: 'ch'|'sn', cond_timeout, path_timeout, vacuity: bool, extra}
Result: {id, status: CONFIRMED|REFUTED|UNKNOWN|PRE_UNSAT|ERROR, detail, args, paths, queries, solver_s,
         cpu_s, wall_s}
"""
import collections
import importlib
import json
import os
import sys
import time
import traceback

sys.path.insert(0, os.path.dirname(os.path.dirname(os.path.abspath(__file__))))
sys.setrecursionlimit(20000)

OUT = os.fdopen(os.dup(1), 'w')
os.dup2(2, 1)
sys.stdout = sys.stderr

import z3  # noqa: E402

STATS = {'queries': 0, 'solver_s': 0.0}
_orig_check = z3.Solver.check


def _timed_check(self, *a, **k):
    t0 = time.perf_counter()
    try:
        return _orig_check(self, *a, **k)
    finally:
        STATS['queries'] += 1
        STATS['solver_s'] += time.perf_counter() - t0


z3.Solver.check = _timed_check

from engine import common  # noqa: E402

_MODULES = {}


def get_module(name):
    if name not in _MODULES:
        mod = importlib.import_module(name)
        if hasattr(mod, 'warmup'):
            try:
                mod.warmup()      # only there to trigger lazy compilation (networkx argmap); its verdicts are ignored
            except Exception:
                traceback.print_exc()
        _MODULES[name] = mod
    return _MODULES[name]


def parse_call(message, fn_name):
    """Extract positional/keyword arguments from CrossHair's 'when calling f(...)' text."""
    import ast
    marker = 'when calling '
    if marker not in message:
        return None
    text = message.split(marker, 1)[1]
    ends = [i for i, ch in enumerate(text) if ch == ')']
    for end in ends:
        cand = text[:end + 1]
        try:
            node = ast.parse(cand, mode='eval').body
        except SyntaxError:
            continue
        if isinstance(node, ast.Call):
            env = {fn_name: lambda *a, **k: (a, k), 'float': float, 'nan': float('nan'), 'inf': float('inf')}
            try:
                a, k = eval(compile(ast.Expression(node), '<cex>', 'eval'), env)
            except Exception:
                return None
            return {'args': list(a), 'kwargs': k, 'text': cand}
    return None


_FLOAT_PATCHED = []


def _float_as_real():
    """CrossHair forks every float into a real-based and a bit-precise IEEE representation; the IEEE branch
    (fpRealToFP of an unbounded integer) takes minutes per query.  E1 harnesses meet floats only through
    ``float(int)`` integrality tests, exact for |n| < 2**53, so the real-based representation is used alone
    (stated as an assumption in the evidence)."""
    if _FLOAT_PATCHED:
        return
    import crosshair.libimpl.builtinslib as bl
    import crosshair.statespace as st
    bl._PYTYPE_TO_WRAPPER_TYPE[float] = ((bl.RealBasedSymbolicFloat, 1.0),)
    # CrossHair caps every path that touched a real-modelled float at UNKNOWN because reals are not IEEE floats.
    # In the E1 harnesses floats arise only from symbolic *integers* (float(n), n < inf comparisons), where the real
    # model is exact for |n| < 2**53, so the cap is lifted (assumption listed in every E1 evidence file).
    st.StateSpace.cap_result_at_unknown = lambda self: None
    _FLOAT_PATCHED.append(True)


def run_ch(task):
    from crosshair.core import analyze_function
    _float_as_real()
    from crosshair.core_and_libs import standalone_statespace  # noqa: F401  (registers library patches)
    from crosshair.options import AnalysisOptionSet
    from crosshair.statespace import MessageType
    mod = get_module(task['module'])
    mod.PART = task.get('part') or {}
    common.VACUITY = bool(task.get('vacuity'))
    fn = getattr(mod, task['fn'])
    stats = collections.Counter()
    opts = AnalysisOptionSet(
        per_condition_timeout=float(task.get('cond_timeout', 60)),
        per_path_timeout=float(task.get('path_timeout', 30)),
        max_uninteresting_iterations=0,   # 0 = unlimited: only exhaustion, refutation or the deadline stop it
        stats=stats,
    )
    checkables = analyze_function(fn, opts)
    if not checkables:
        return {'status': 'ERROR', 'detail': 'no conditions found on %s' % task['fn']}
    worst = 'CONFIRMED'
    detail = ''
    args = None
    tb = ''
    for checkable in checkables:
        for msg in checkable.analyze():
            st = msg.state
            if st == MessageType.CONFIRMED:
                continue
            if st in (MessageType.POST_FAIL, MessageType.EXEC_ERR, MessageType.POST_ERR):
                worst = 'REFUTED'
                detail = msg.message
                tb = msg.traceback or ''
                args = parse_call(msg.message, task['fn'])
                break
            if st == MessageType.PRE_UNSAT:
                if worst != 'REFUTED':
                    worst = 'PRE_UNSAT'
                    detail = msg.message
            elif st == MessageType.CANNOT_CONFIRM:
                if worst == 'CONFIRMED':
                    worst = 'UNKNOWN'
                    detail = msg.message
            else:
                worst = 'ERROR'
                detail = '%s: %s' % (st, msg.message)
    return {'status': worst, 'detail': detail, 'args': args, 'traceback': tb[-1500:],
            'paths': int(stats.get('num_paths', 0))}


def run_sn(task):
    from engine.symnum import explore_case
    mod = get_module(task['module'])
    mod.PART = task.get('part') or {}
    common.VACUITY = bool(task.get('vacuity'))
    fn = getattr(mod, task['fn'])
    return explore_case(fn, task)


def main():
    for line in sys.stdin:
        line = line.strip()
        if not line:
            continue
        task = json.loads(line)
        STATS['queries'] = 0
        STATS['solver_s'] = 0.0
        t0 = time.perf_counter()
        c0 = time.process_time()
        try:
            res = run_ch(task) if task.get('engine', 'ch') == 'ch' else run_sn(task)
        except BaseException as exc:  # engine failure: never a finding
            if isinstance(exc, (KeyboardInterrupt, SystemExit)):
                raise
            res = {'status': 'ERROR', 'detail': '%s: %s' % (type(exc).__name__, exc),
                   'traceback': traceback.format_exc()[-3000:]}
        res['id'] = task['id']
        res.setdefault('paths', 0)
        res['queries'] = res.get('queries', 0) or STATS['queries']
        res['solver_s'] = round(res.get('solver_s', 0) or STATS['solver_s'], 3)
        res['wall_s'] = round(time.perf_counter() - t0, 3)
        res['cpu_s'] = round(time.process_time() - c0, 3)
        OUT.write(json.dumps(res, default=repr) + '\n')
        OUT.flush()


if __name__ == '__main__':
    main()
