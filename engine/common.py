"""Shared helpers for harness modules (imported both under the engines and in plain replays).

Nothing here imports crosshair or z3 at module level, so that replay scripts run the harness
natively, with no engine in the process.
"""
import json
import logging
import os

VERIF = os.path.dirname(os.path.dirname(os.path.abspath(__file__)))

# Set by the worker for the reachability twin of a case: the harness then reports success paths
# as failures, so a REFUTED verdict proves the end of the harness is reachable under the
# preconditions (vacuity guard).
VACUITY = False


def ok():
    """Value a harness returns on a path where the property held."""
    return 'reached-end' if VACUITY else ''


class Recorder(logging.Handler):
    """Stands in for formatting log handlers: stores (level, type) and never formats the message."""

    def __init__(self):
        super().__init__(level=1)
        self.records = []

    def emit(self, record):
        self.records.append((record.levelno, getattr(record, 'type', None)))

    def types(self, minlevel=logging.WARNING):
        return [t for lvl, t in self.records if lvl >= minlevel]


class RecLogger:
    """Replacement for a module-level ``LOGGER`` (StyleAdapter/TypeAdapter chain).

    Records ``(levelname, type)`` of every call without formatting anything, because formatting
    concretises symbolic values and the message text is not part of any property.
    """

    def __init__(self):
        self.records = []

    def _log(self, level, msg, *args, type='general', **kwargs):
        self.records.append((level, type))

    def debug(self, msg, *a, **k):
        self._log('DEBUG', msg, *a, **k)

    def info(self, msg, *a, **k):
        self._log('INFO', msg, *a, **k)

    def warning(self, msg, *a, **k):
        self._log('WARNING', msg, *a, **k)

    def error(self, msg, *a, **k):
        self._log('ERROR', msg, *a, **k)

    def critical(self, msg, *a, **k):
        self._log('CRITICAL', msg, *a, **k)

    def log(self, level, msg, *a, **k):
        self._log(logging.getLevelName(level), msg, *a, **k)

    def types(self, levels=('WARNING', 'ERROR', 'CRITICAL')):
        return [t for lvl, t in self.records if lvl in levels]

    def clear(self):
        self.records = []


def load_findings():
    path = os.path.join(VERIF, 'known_findings.json')
    if not os.path.exists(path):
        return []
    with open(path) as handle:
        return json.load(handle)['findings']


def open_findings(prop):
    """Ids of recorded-but-not-repaired findings of a property (status 'open')."""
    return {f['id'] for f in load_findings() if f['property'] == prop and f['status'] == 'open'}


def no_tracing():
    """Context manager: CrossHair's NoTracing when running under CrossHair, a no-op otherwise."""
    import contextlib
    import sys
    if 'crosshair' in sys.modules:
        from crosshair.tracers import NoTracing, is_tracing
        if is_tracing():
            return NoTracing()
    return contextlib.nullcontext()


def concretize(value):
    """Force a CrossHair symbolic value to one concrete value on this path (the engine then enumerates the values
    path by path - declared enumeration). Identity outside CrossHair."""
    import sys
    if 'crosshair' in sys.modules:
        from crosshair.tracers import is_tracing
        if is_tracing():
            from crosshair.core import realize
            return realize(value)
    return value
