"""E2 'symnum' - proxy execution of real numeric (numpy) code over z3 reals.

The *unmodified* vermouth function is called on proxy scalars (SymReal / SymBool wrapping z3 terms) held in
numpy object arrays (SymArray, an ndarray subclass intercepting ufuncs / array functions).  Python-level
branches on symbolic conditions call ``SymBool.__bool__``, which asks the path scheduler: depth-first search
over decision sequences, the function is re-executed per path, a branch is taken only if z3 finds
``pc /\\ side /\\ cond`` satisfiable.  At the end of each path the harness states claims; each claim is one
query ``pc /\\ side /\\ not claim``: unsat = discharged for every real value on that path, sat = model.

Arithmetic is exact real arithmetic (QF_NRA).  sqrt(t) is a fresh y with y >= 0, y*y = t; exp(t) a fresh
positive variable per distinct argument polynomial, with exp(0) = 1, exp(t) < 1 for t < 0 and exp(t) > 1 for
t > 0 added as side constraints (over-approximation: "holds" is sound, a model may be
spurious and is only reported if it replays natively in floating point).
"""
import fractions
import math
import time

import numpy as np

try:
    import z3
except ImportError:          # replays run without z3: only the concrete context is usable then
    z3 = None


class Violation(Exception):
    def __init__(self, label, model):
        super().__init__(label)
        self.label = label
        self.model = model


class Inconclusive(Exception):
    pass


class Ctx:
    """Symbolic execution context of one path."""
    cur = None
    symbolic = True

    def __init__(self, decisions, timeout_ms=20000):
        self.decisions = list(decisions)
        self.pos = 0
        self.pc = []
        self.side = []
        self.queries = 0
        self.solver_s = 0.0
        self.vars = {}
        self.sqrttab = {}
        self.exptab = {}
        self.observations = {}
        self.claims = 0
        self.timeout_ms = timeout_ms
        self.pins = {}
        self.exp_pairwise = False    # pairwise monotonicity facts between exp variables (costly in NRA)

    # -- solver
    def _check(self, *extra):
        s = z3.Solver()
        s.set('timeout', self.timeout_ms)
        s.add(*self.side)
        s.add(*self.pc)
        s.add(*extra)
        t0 = time.perf_counter()
        r = s.check()
        self.solver_s += time.perf_counter() - t0
        self.queries += 1
        return r, s

    def decide(self, cond):
        c = z3.simplify(cond)
        if z3.is_true(c):
            return True
        if z3.is_false(c):
            return False
        if self.pos < len(self.decisions):
            d = self.decisions[self.pos]
        else:
            d = None
            for cand in (True, False):
                r, _ = self._check(c if cand else z3.Not(c))
                if r == z3.sat:
                    d = cand
                    break
                if r == z3.unknown:
                    raise Inconclusive('solver unknown on a branch condition')
            if d is None:
                raise Inconclusive('both sides of a branch infeasible (inconsistent path)')
            self.decisions.append(d)
        self.pos += 1
        self.pc.append(c if d else z3.Not(c))
        return d

    # -- harness API
    def real(self, name, lo=None, hi=None):
        if name not in self.vars:
            v = z3.Real(name)
            self.vars[name] = v
            if lo is not None:
                self.side.append(v >= lift(lo))
            if hi is not None:
                self.side.append(v <= lift(hi))
            if name in self.pins:
                self.side.append(v == lift(self.pins[name]))
        return SymReal(self.vars[name])

    def const(self, value):
        return SymReal(lift(value))

    def assume(self, cond):
        self.side.append(cond.e if isinstance(cond, SymBool) else z3.BoolVal(bool(cond)))

    def claim(self, cond, label):
        """Property obligation on the current path."""
        self.claims += 1
        if isinstance(cond, (bool, np.bool_)):
            if not cond:
                r, s = self._check()
                if r == z3.sat:
                    raise Violation(label, self._model(s.model()))
                if r == z3.unknown:
                    raise Inconclusive('solver unknown while extracting a model for %s' % label)
            return
        r, s = self._check(z3.Not(cond.e))
        if r == z3.sat:
            raise Violation(label, self._model(s.model()))
        if r == z3.unknown:
            raise Inconclusive('solver unknown on claim %s' % label)

    def close(self, a, b):
        return as_sym(a) == b

    def ite(self, cond, a, b):
        if isinstance(cond, (bool, np.bool_)):
            return a if cond else b
        return SymReal(z3.If(cond.e, lift(a), lift(b)))

    def abs(self, a):
        return abs(as_sym(a))

    def all(self, conds):
        terms = [c.e if isinstance(c, SymBool) else z3.BoolVal(bool(c)) for c in conds]
        return SymBool(z3.And(*terms)) if terms else True

    def any(self, conds):
        terms = [c.e if isinstance(c, SymBool) else z3.BoolVal(bool(c)) for c in conds]
        return SymBool(z3.Or(*terms)) if terms else False

    def implies(self, a, b):
        ea = a.e if isinstance(a, SymBool) else z3.BoolVal(bool(a))
        eb = b.e if isinstance(b, SymBool) else z3.BoolVal(bool(b))
        return SymBool(z3.Implies(ea, eb))

    def iff(self, a, b):
        ea = a.e if isinstance(a, SymBool) else z3.BoolVal(bool(a))
        eb = b.e if isinstance(b, SymBool) else z3.BoolVal(bool(b))
        return SymBool(ea == eb)

    def neg(self, a):
        return SymBool(z3.Not(a.e)) if isinstance(a, SymBool) else (not a)

    def exp_of(self, arg):
        """The engine's variable for exp(arg) (same table as the code under test uses)."""
        return as_sym(arg).exp()

    def sqrt_of(self, arg):
        return as_sym(arg).sqrt()

    def observe(self, name, value):
        self.observations[name] = value

    def array(self, values):
        return wrap(np.array([as_sym(v) if not isinstance(v, (list, tuple)) else None for v in values], dtype=object)) \
            if not any(isinstance(v, (list, tuple)) for v in values) else wrap(np.array(
                [[as_sym(x) for x in v] for v in values], dtype=object))

    def _model(self, model):
        out = {}
        for name, v in self.vars.items():
            val = model.eval(v, model_completion=True)
            out[name] = _num_to_str(val)
        return out


def _num_to_str(val):
    if z3.is_rational_value(val):
        return '%s/%s' % (val.numerator_as_long(), val.denominator_as_long())
    if z3.is_algebraic_value(val):
        approx = val.approx(30)
        return '%s/%s' % (approx.numerator_as_long(), approx.denominator_as_long())
    return str(val)


class ConcreteCtx:
    """Same API on plain floats: native replays and self-validation runs (no z3 involved)."""
    symbolic = False

    def __init__(self, values):
        self.values = dict(values)
        self.failures = []
        self.observations = {}
        self.tol = 1e-9

    def real(self, name, lo=None, hi=None):
        v = self.values[name]
        if isinstance(v, str):
            v = float(fractions.Fraction(v))
        return float(v)

    def const(self, value):
        return float(value)

    def assume(self, cond):
        if not cond:
            raise AssumptionFailed()

    def claim(self, cond, label):
        if not bool(cond):
            self.failures.append(label)

    def close(self, a, b):
        a = float(a)
        b = float(b)
        if math.isnan(a) or math.isnan(b):
            return False
        return abs(a - b) <= self.tol * max(1.0, abs(a), abs(b))

    def ite(self, cond, a, b):
        return a if cond else b

    def abs(self, a):
        return abs(a)

    def all(self, conds):
        return all(bool(c) for c in conds)

    def any(self, conds):
        return any(bool(c) for c in conds)

    def implies(self, a, b):
        return (not a) or bool(b)

    def iff(self, a, b):
        return bool(a) == bool(b)

    def neg(self, a):
        return not a

    def exp_of(self, arg):
        return math.exp(arg)

    def sqrt_of(self, arg):
        return math.sqrt(arg)

    def observe(self, name, value):
        self.observations[name] = value

    def array(self, values):
        return np.array(values, dtype=float)


class AssumptionFailed(Exception):
    pass


# ------------------------------------------------------------------------------------------ proxies
def lift(x):
    if isinstance(x, SymReal):
        return x.e
    if isinstance(x, (bool, np.bool_)):
        return z3.RealVal(1 if x else 0)
    if isinstance(x, (int, np.integer)):
        return z3.RealVal(int(x))
    if isinstance(x, (float, np.floating)):
        f = float(x)
        if math.isnan(f) or math.isinf(f):
            raise TypeError('nan/inf cannot be lifted to a real')
        fr = fractions.Fraction(f)          # the exact value of the double
        return z3.RealVal(fr.numerator) / z3.RealVal(fr.denominator) if fr.denominator != 1 else z3.RealVal(fr.numerator)
    if isinstance(x, fractions.Fraction):
        return z3.RealVal(x.numerator) / z3.RealVal(x.denominator)
    if isinstance(x, str):
        return lift(fractions.Fraction(x))
    raise TypeError(type(x))


def as_sym(x):
    return x if isinstance(x, SymReal) else SymReal(lift(x))


class SymBool:
    def __init__(self, e):
        self.e = e

    def __bool__(self):
        return Ctx.cur.decide(self.e)

    def _o(self, o):
        return o.e if isinstance(o, SymBool) else z3.BoolVal(bool(o))

    def __and__(self, o):
        return SymBool(z3.And(self.e, self._o(o)))
    __rand__ = __and__

    def __or__(self, o):
        return SymBool(z3.Or(self.e, self._o(o)))
    __ror__ = __or__

    def __invert__(self):
        return SymBool(z3.Not(self.e))

    def __mul__(self, o):       # bool * number (numpy "constants *= mask")
        return SymReal(z3.If(self.e, lift(o), z3.RealVal(0)))
    __rmul__ = __mul__

    __hash__ = None

    def __repr__(self):
        return 'SymBool(%s)' % self.e


class SymReal:
    def __init__(self, e):
        self.e = e

    def _b(self, o, f):
        if isinstance(o, SymBool):
            o = SymReal(z3.If(o.e, z3.RealVal(1), z3.RealVal(0)))
        try:
            return SymReal(f(self.e, lift(o)))
        except TypeError:
            return NotImplemented

    def __add__(self, o):
        return self._b(o, lambda a, b: a + b)
    __radd__ = __add__

    def __sub__(self, o):
        return self._b(o, lambda a, b: a - b)

    def __rsub__(self, o):
        return self._b(o, lambda a, b: b - a)

    def __mul__(self, o):
        return self._b(o, lambda a, b: a * b)
    __rmul__ = __mul__

    def __truediv__(self, o):
        return self._b(o, lambda a, b: a / b)

    def __rtruediv__(self, o):
        return self._b(o, lambda a, b: b / a)

    def __neg__(self):
        return SymReal(-self.e)

    def __pos__(self):
        return self

    def __abs__(self):
        return SymReal(z3.If(self.e >= 0, self.e, -self.e))

    def __pow__(self, o):
        if isinstance(o, (int, np.integer)) and o >= 0:
            r = z3.RealVal(1)
            for _ in range(int(o)):
                r = r * self.e
            return SymReal(r)
        if isinstance(o, float) and o.is_integer() and o >= 0:
            return self.__pow__(int(o))
        return NotImplemented

    def _c(self, o, f):
        try:
            return SymBool(f(self.e, lift(o)))
        except TypeError:
            return NotImplemented

    def __lt__(self, o):
        return self._c(o, lambda a, b: a < b)

    def __le__(self, o):
        return self._c(o, lambda a, b: a <= b)

    def __gt__(self, o):
        return self._c(o, lambda a, b: a > b)

    def __ge__(self, o):
        return self._c(o, lambda a, b: a >= b)

    def __eq__(self, o):
        return self._c(o, lambda a, b: a == b)

    def __ne__(self, o):
        return self._c(o, lambda a, b: a != b)

    __hash__ = None

    def __float__(self):
        raise TypeError('SymReal cannot be converted to float (would concretise)')

    def __format__(self, spec):
        # only log messages and comment strings format numbers in the code reached by E2 harnesses; the text is a
        # placeholder, never compared
        return '<symbolic real>'

    def __round__(self, n=None):
        return self       # rounding to n decimals is abstracted: |round(x) - x| <= 0.5e-n is stated by the harness

    def round(self, n=0):
        return self

    def sqrt(self):
        c = Ctx.cur
        arg = z3.simplify(self.e, som=True)
        found = _lookup(c.sqrttab, arg)
        if found is None:
            found = z3.Real('sqrt!%d' % sum(len(v) for v in c.sqrttab.values()))
            c.sqrttab.setdefault(_fingerprint(arg), []).append((arg, found))
            c.side += [found >= 0, found * found == arg]
        return SymReal(found)

    def exp(self):
        c = Ctx.cur
        arg = z3.simplify(self.e, som=True)
        found = _lookup(c.exptab, arg)
        if found is None:
            v = z3.Real('exp!%d' % sum(len(x) for x in c.exptab.values()))
            c.side.append(v > 0)
            # facts every exponential satisfies; enough for the comparisons the code under test makes
            c.side.append(z3.Implies(arg < 0, v < 1))
            c.side.append(z3.Implies(arg > 0, v > 1))
            c.side.append(z3.Implies(arg == 0, v == 1))
            c.exptab.setdefault(_fingerprint(arg), []).append((arg, v))
            found = v
        return SymReal(found)

    def __repr__(self):
        return 'SymReal(%s)' % self.e



_FP_VALUES = {}


def _vars_of(expr, acc=None, seen=None):
    if acc is None:
        acc, seen = {}, set()
    eid = expr.get_id()
    if eid in seen:
        return acc
    seen.add(eid)
    if z3.is_const(expr) and expr.decl().kind() == z3.Z3_OP_UNINTERPRETED:
        acc[str(expr)] = expr
    for child in expr.children():
        _vars_of(child, acc, seen)
    return acc


def _fingerprint(expr):
    """Values of a term at two fixed pseudo-random rational points: equal terms have equal fingerprints."""
    import hashlib
    variables = _vars_of(expr)
    out = []
    for salt in (b'a', b'b'):
        subs = []
        for name, var in variables.items():
            digest = int(hashlib.md5(salt + name.encode()).hexdigest(), 16)
            subs.append((var, z3.RealVal(digest % 10007 + 1) / z3.RealVal(digest % 89 + 7)))
        out.append(z3.simplify(z3.substitute(expr, *subs)).sexpr())
    return tuple(out)


def _lookup(table, arg):
    """Entry of a (fingerprint -> [(arg, var)]) table whose argument is provably equal to `arg`, else None."""
    for oarg, ov in table.get(_fingerprint(arg), []):
        if z3.is_true(z3.simplify(oarg == arg)) or z3.simplify(oarg - arg, som=True).sexpr() in ('0.0', '0'):
            return ov
        solver = z3.Solver()
        solver.set('timeout', 2000)
        solver.add(oarg != arg)
        if solver.check() == z3.unsat:
            return ov
    return None


def _is_sym(x):
    return isinstance(x, (SymReal, SymBool))


def wrap(a):
    if not isinstance(a, np.ndarray):
        a = np.asarray(a, dtype=object)
    return a.view(SymArray) if a.dtype == object else a


def unwrap(a):
    return np.asarray(a).view(np.ndarray) if isinstance(a, SymArray) else a


def _ite(c, a, b):
    if isinstance(c, (bool, np.bool_)):
        return a if c else b
    if isinstance(a, SymBool) or isinstance(b, SymBool):
        ea = a.e if isinstance(a, SymBool) else z3.BoolVal(bool(a))
        eb = b.e if isinstance(b, SymBool) else z3.BoolVal(bool(b))
        return SymBool(z3.If(c.e, ea, eb))
    return SymReal(z3.If(c.e, lift(a), lift(b)))


_CMP = None


def _cmp_table():
    global _CMP
    if _CMP is None:
        import operator
        _CMP = {np.less: operator.lt, np.greater: operator.gt, np.less_equal: operator.le,
                np.greater_equal: operator.ge, np.equal: operator.eq, np.not_equal: operator.ne}
    return _CMP


class SymArray(np.ndarray):
    """Object ndarray of proxies; keeps producing terms under the numpy calls the code under test makes."""

    def __array_ufunc__(self, ufunc, method, *inputs, out=None, **kw):
        ins = [unwrap(i) for i in inputs]
        if method == 'reduce':
            if ufunc is np.add:
                r = np.add.reduce(ins[0], **{k: v for k, v in kw.items() if k in ('axis', 'keepdims')})
                return wrap(r) if isinstance(r, np.ndarray) else r
            if ufunc in (np.logical_or, np.logical_and):
                flat = list(np.asarray(ins[0], dtype=object).ravel())
                terms = [x.e if isinstance(x, SymBool) else z3.BoolVal(bool(x)) for x in flat]
                return SymBool(z3.Or(*terms) if ufunc is np.logical_or else z3.And(*terms))
            return NotImplemented
        if method != '__call__':
            return NotImplemented
        if ufunc is np.isnan:     # proxies are reals (never NaN); concrete floats in the array are tested as usual
            return np.frompyfunc(lambda x: (not _is_sym(x)) and isinstance(x, float) and math.isnan(x), 1, 1)(
                np.asarray(ins[0], dtype=object)).astype(bool)
        cmp = _cmp_table()
        if ufunc is np.sqrt:
            r = np.frompyfunc(lambda x: x.sqrt() if isinstance(x, SymReal) else np.sqrt(x), 1, 1)(ins[0])
        elif ufunc is np.exp:
            r = np.frompyfunc(lambda x: x.exp() if isinstance(x, SymReal) else np.exp(x), 1, 1)(ins[0])
        elif ufunc is np.absolute:
            r = np.frompyfunc(abs, 1, 1)(ins[0])
        elif ufunc in cmp:
            r = np.frompyfunc(cmp[ufunc], 2, 1)(*ins)
        elif ufunc in (np.bitwise_and, np.logical_and):
            r = np.frompyfunc(lambda a, b: (a & b) if _is_sym(a) or _is_sym(b) else (bool(a) and bool(b)), 2, 1)(*ins)
        elif ufunc in (np.bitwise_or, np.logical_or):
            r = np.frompyfunc(lambda a, b: (a | b) if _is_sym(a) or _is_sym(b) else (bool(a) or bool(b)), 2, 1)(*ins)
        elif ufunc in (np.invert, np.logical_not):
            r = np.frompyfunc(lambda a: (~a) if _is_sym(a) else (not a), 1, 1)(ins[0])
        elif ufunc is np.multiply:
            ins = [i.astype(object) if getattr(i, 'dtype', None) == bool else i for i in ins]
            r = np.frompyfunc(lambda a, b: a * b, 2, 1)(*ins)
        elif ufunc is np.power:
            r = np.frompyfunc(lambda a, b: a ** b, 2, 1)(*ins)
        else:
            r = ufunc(*ins, **kw)
        if out is not None:
            o = unwrap(out[0])
            o[...] = r
            return out[0]
        return wrap(r) if isinstance(r, np.ndarray) else r

    def __array_function__(self, func, types, args, kwargs):
        if func is np.fill_diagonal:
            a, v = args
            u = unwrap(a)
            for i in range(min(u.shape)):
                u[i, i] = v
            return None
        if func is np.stack:
            return wrap(np.stack([unwrap(x) for x in args[0]], **kwargs))
        if func is np.triu_indices_from:
            return np.triu_indices(args[0].shape[0], kwargs.get('k', args[1] if len(args) > 1 else 0))
        if func is np.any:
            u = unwrap(args[0])
            return any(bool(x) for x in np.asarray(u, dtype=object).ravel())
        if func is np.sum:
            r = np.add.reduce(unwrap(args[0]), axis=kwargs.get('axis', args[1] if len(args) > 1 else None))
            return wrap(r) if isinstance(r, np.ndarray) else r
        if func is np.average:
            a = unwrap(args[0])
            axis = kwargs.get('axis', None)
            weights = kwargs.get('weights', None)
            if weights is None:
                raise NotImplementedError('np.average without weights on proxies')
            w = np.asarray(unwrap(weights), dtype=object)
            scl = np.add.reduce(w)
            if bool(as_sym(scl) == 0):
                raise ZeroDivisionError("Weights sum to zero, can't be normalized")
            if axis != 0:
                raise NotImplementedError('np.average axis %r on proxies' % (axis,))
            r = np.add.reduce(np.array([a[i] * w[i] for i in range(len(w))], dtype=object), axis=0) / scl
            return wrap(np.asarray(r, dtype=object))
        if func is np.round or func is np.around:
            return args[0]
        args = [unwrap(a) for a in args]
        r = func(*args, **kwargs)
        return wrap(r) if isinstance(r, np.ndarray) and r.dtype == object else r

    def __setitem__(self, key, value):
        u = unwrap(self)
        if isinstance(key, np.ndarray) and key.dtype == object and key.shape == u.shape:
            k = unwrap(key)
            for idx in np.ndindex(u.shape):
                u[idx] = _ite(k[idx], value, u[idx])
            return
        np.ndarray.__setitem__(u, unwrap(key) if isinstance(key, SymArray) else key,
                               unwrap(value) if isinstance(value, SymArray) else value)

    def __getitem__(self, key):
        r = np.ndarray.__getitem__(unwrap(self), key)
        return wrap(r) if isinstance(r, np.ndarray) else r

    def round(self, decimals=0, out=None):
        return self          # abstracted; the harness states the rounding interval

    def any(self, *a, **k):
        return any(bool(x) for x in np.asarray(unwrap(self), dtype=object).ravel())

    def sum(self, axis=None, **k):
        r = np.add.reduce(unwrap(self), axis=axis)
        return wrap(r) if isinstance(r, np.ndarray) else r


class NPShim:
    """Stand-in for the ``np`` name inside a module under test: identical to numpy except that
    ``np.array(list of proxies, dtype=float)`` keeps the proxies (numpy would call float() on them)."""

    def __getattr__(self, name):
        return getattr(np, name)

    @staticmethod
    def array(x, dtype=None, **kw):
        try:
            a = np.array(x, dtype=object)
        except ValueError:
            return np.array(x, dtype=dtype, **kw)
        if any(_is_sym(e) for e in a.ravel()):
            return wrap(a)
        return np.array(x, dtype=dtype, **kw)

    @staticmethod
    def asarray(x, dtype=None, **kw):
        return NPShim.array(x, dtype=dtype, **kw)


# ------------------------------------------------------------------------------------------ exploration
def explore(fn, max_paths=20000, deadline=None, stop_on_end=False, pins=None):
    """DFS over decision sequences of fn(ctx). Returns dict(paths, queries, solver_s, status, ...)."""
    stack = [[]]
    paths = queries = claims = 0
    solver_s = 0.0
    samples = []
    while stack:
        if deadline is not None and time.time() > deadline:
            return dict(status='UNKNOWN', detail='deadline reached with %d paths pending' % len(stack), paths=paths,
                        queries=queries, solver_s=solver_s, claims=claims, samples=samples)
        prefix = stack.pop()
        ctx = Ctx(prefix)
        ctx.pins = dict(pins or {})
        Ctx.cur = ctx
        try:
            fn(ctx)
        except Violation as v:
            paths += 1
            return dict(status='REFUTED', detail='claim "%s" fails' % v.label, model=v.model, paths=paths,
                        queries=queries + ctx.queries, solver_s=solver_s + ctx.solver_s, claims=claims + ctx.claims,
                        decisions=list(ctx.decisions), samples=samples)
        except Inconclusive as exc:
            return dict(status='UNKNOWN', detail=str(exc), paths=paths, queries=queries + ctx.queries,
                        solver_s=solver_s + ctx.solver_s, claims=claims, samples=samples)
        finally:
            Ctx.cur = None
        paths += 1
        queries += ctx.queries
        solver_s += ctx.solver_s
        claims += ctx.claims
        if len(samples) < 3:
            samples.append({'decisions': list(ctx.decisions), 'path_condition': [str(c)[:120] for c in ctx.pc[:6]],
                            'claims': ctx.claims})
        if stop_on_end:
            return dict(status='REFUTED', detail='reached-end', paths=paths, queries=queries, solver_s=solver_s,
                        claims=claims, samples=samples, observations=ctx.observations)
        for i in range(len(prefix), len(ctx.decisions)):
            s = z3.Solver()
            s.set('timeout', ctx.timeout_ms)
            s.add(*ctx.side)
            s.add(*ctx.pc[:i])
            s.add(z3.Not(ctx.pc[i]))
            t0 = time.perf_counter()
            r = s.check()
            solver_s += time.perf_counter() - t0
            queries += 1
            if r == z3.sat:
                stack.append(ctx.decisions[:i] + [not ctx.decisions[i]])
            elif r == z3.unknown:
                return dict(status='UNKNOWN', detail='solver unknown on sibling feasibility', paths=paths,
                            queries=queries, solver_s=solver_s, claims=claims, samples=samples)
        if paths > max_paths:
            return dict(status='UNKNOWN', detail='more than %d paths' % max_paths, paths=paths, queries=queries,
                        solver_s=solver_s, claims=claims, samples=samples)
    return dict(status='CONFIRMED', detail='', paths=paths, queries=queries, solver_s=solver_s, claims=claims,
                samples=samples)


def explore_case(fn, task):
    from engine import common
    deadline = time.time() + float(task.get('cond_timeout', 120))
    res = explore(fn, deadline=deadline, stop_on_end=bool(task.get('vacuity')))
    if res['status'] == 'CONFIRMED' and res.get('claims', 0) == 0:
        res['status'] = 'ERROR'
        res['detail'] = 'no claim was stated on any path'
    res['solver_s'] = round(res.get('solver_s', 0.0), 3)
    return res


def replay_model(fn, model):
    """Run the harness natively (floats, real numpy) on the values of a solver model. '' = not reproduced."""
    ctx = ConcreteCtx(model)
    try:
        fn(ctx)
    except AssumptionFailed:
        return ''
    return '; '.join(ctx.failures)


def run_concrete(fn, values):
    ctx = ConcreteCtx(values)
    try:
        fn(ctx)
    except AssumptionFailed:
        return None, ctx
    return ctx.failures, ctx


def differential(fn, values, tol=1e-7):
    """Engine self-validation: the harness run natively on `values` and through the proxies with every variable
    pinned to the same values must take a feasible path, state no failing claim and agree on all observations."""
    failures, cctx = run_concrete(fn, values)
    if failures is None:
        return 'skipped'
    pins = {k: fractions.Fraction(v) if not isinstance(v, str) else fractions.Fraction(v) for k, v in values.items()}
    res = explore(fn, pins=pins, stop_on_end=True)
    if res['status'] == 'REFUTED' and res['detail'] != 'reached-end':
        return '' if failures else 'engine reports a failing claim (%s) that the native run does not' % res['detail']
    if failures:
        return 'native run fails %s but the pinned symbolic run does not' % failures
    if res['status'] != 'REFUTED':
        return 'pinned symbolic run did not reach the end: %s %s' % (res['status'], res.get('detail'))
    sobs = res.get('observations', {})
    for name, cval in cctx.observations.items():
        if name not in sobs:
            return 'observation %s missing in symbolic run' % name
        sval = sobs[name]
        if _is_sym(sval) or isinstance(sval, (float, int)) and isinstance(cval, float):
            continue            # numeric observations are compared through claims, structure through equality
        if sval != cval:
            return 'observation %s differs: symbolic %r native %r' % (name, sval, cval)
    return ''
