"""Check driver: fans the cases of one property's harness out over a pool of persistent workers,
replays every solver model natively, handles known findings, writes evidence, sets the exit code.

exit 0  property held on everything explored (bounded; see evidence)
exit 1  a solver model replayed against the real code  ->  VIOLATION line printed
exit 2  inconclusive (timeout / unknown / engine error / non-reproducing model / vacuous harness)
"""
import hashlib
import importlib
import json
import os
import queue
import subprocess
import sys
import threading
import time

VERIF = os.path.dirname(os.path.dirname(os.path.abspath(__file__)))
sys.path.insert(0, VERIF)
PY = os.path.join(VERIF, '.venv', 'bin', 'python')

HARNESS = {
}


def register():
    """property id -> harness module name (discovered from harness/cNN_*.py)."""
    out = {}
    for name in sorted(os.listdir(os.path.join(VERIF, 'harness'))):
        if name.startswith('c') and name.endswith('.py') and name[1:3].isdigit():
            out['C' + name[1:3]] = 'harness.' + name[:-3]
    return out


def worker_env():
    env = dict(os.environ)
    env['PYTHONHASHSEED'] = '0'
    env['PYTHONDONTWRITEBYTECODE'] = '1'
    env['PYTHONWARNINGS'] = 'ignore'
    env['VERMOUTH_VERIF'] = '1'
    env['PYTHONPATH'] = VERIF + os.pathsep + '/repo'
    return env


class Worker:
    def __init__(self, log):
        self.log = log
        self.proc = None
        self.start()

    def start(self):
        self.proc = subprocess.Popen([PY, os.path.join(VERIF, 'engine', 'worker.py')], stdin=subprocess.PIPE,
                                     stdout=subprocess.PIPE, stderr=self.log, text=True, env=worker_env(),
                                     cwd=VERIF)

    def run(self, task, hard_timeout):
        if self.proc.poll() is not None:
            self.start()
        try:
            self.proc.stdin.write(json.dumps(task) + '\n')
            self.proc.stdin.flush()
        except BrokenPipeError:
            self.start()
            self.proc.stdin.write(json.dumps(task) + '\n')
            self.proc.stdin.flush()
        result = {}

        def reader():
            line = self.proc.stdout.readline()
            if line:
                try:
                    result.update(json.loads(line))
                except ValueError:
                    result.update({'status': 'ERROR', 'detail': 'bad worker output: %r' % line[:200]})

        th = threading.Thread(target=reader, daemon=True)
        th.start()
        th.join(hard_timeout)
        if th.is_alive() or not result:
            reason = 'hard wall timeout %ss' % hard_timeout if th.is_alive() else 'worker died'
            self.kill()
            self.start()
            return {'id': task['id'], 'status': 'UNKNOWN', 'detail': reason, 'paths': 0, 'queries': 0,
                    'solver_s': 0.0, 'wall_s': hard_timeout, 'cpu_s': 0.0}
        return result

    def kill(self):
        try:
            self.proc.kill()
            self.proc.wait(5)
        except Exception:
            pass

    def close(self):
        try:
            self.proc.stdin.close()
            self.proc.wait(5)
        except Exception:
            self.kill()


def run_pool(tasks, nproc, log, stop_flag, on_result):
    """Run tasks (list of dicts) on nproc workers. on_result(task, result) is called from worker threads
    under a lock; it may append follow-up tasks by returning a list."""
    q = queue.Queue()
    for t in tasks:
        q.put(t)
    lock = threading.Lock()
    pending = [len(tasks)]

    def loop():
        worker = None
        while True:
            try:
                task = q.get(timeout=0.2)
            except queue.Empty:
                with lock:
                    if pending[0] <= 0:
                        break
                continue
            if stop_flag.is_set():
                with lock:
                    pending[0] -= 1
                continue
            if worker is None:
                worker = Worker(log)
            elif task.get('attempt', 1) > 1:
                # retries run in a fresh process: an UNKNOWN / PRE_UNSAT verdict must not depend on what the worker ran before
                worker.kill()
                worker.start()
            hard = task.get('cond_timeout', 60) * 2.5 + 90
            res = worker.run(task, hard)
            with lock:
                more = on_result(task, res) or []
                pending[0] += len(more) - 1
            for t in more:
                q.put(t)
        if worker is not None:
            worker.close()

    threads = [threading.Thread(target=loop, daemon=True) for _ in range(nproc)]
    for th in threads:
        th.start()
    for th in threads:
        th.join()


def write_replay(prop, module, fn, part, args, kwargs, note, engine='ch', model=None):
    body = {'module': module, 'fn': fn, 'part': part, 'args': args, 'kwargs': kwargs, 'engine': engine,
            'model': model}
    digest = hashlib.sha1(json.dumps(body, sort_keys=True, default=repr).encode()).hexdigest()[:10]
    path = os.path.join(VERIF, 'replays', '%s-%s.py' % (prop, digest))
    os.makedirs(os.path.dirname(path), exist_ok=True)
    src = '''#!/verif/.venv/bin/python
"""Replay of a solver model against the real code in /repo (no solver, no symbolic engine in this process).
property: %(prop)s
harness : %(module)s.%(fn)s
found   : %(note)s
exit 1 = the violation reproduces, exit 0 = it does not.
"""
import importlib, os, sys, traceback
sys.path.insert(0, %(verif)r); sys.path.insert(1, '/repo')
sys.setrecursionlimit(20000)
mod = importlib.import_module(%(module)r)
if hasattr(mod, 'warmup'):
    try:
        mod.warmup()
    except Exception:
        pass
mod.PART = %(part)r
ENGINE = %(engine)r
try:
    if ENGINE == 'ch':
        res = getattr(mod, %(fn)r)(*%(args)r, **%(kwargs)r)
    else:
        from engine.symnum import replay_model
        res = replay_model(getattr(mod, %(fn)r), %(model)r)
except Exception:
    traceback.print_exc()
    print('REPRODUCED: unexpected exception from the code under test')
    sys.exit(1)
print('harness result:', repr(res))
if res:
    print('REPRODUCED:', res)
    sys.exit(1)
print('not reproduced')
sys.exit(0)
''' % dict(prop=prop, module=module, fn=fn, note=note.replace('"""', "'''"), verif=VERIF, part=part, args=args,
           kwargs=kwargs, engine=engine, model=model)
    with open(path, 'w') as handle:
        handle.write(src)
    os.chmod(path, 0o755)
    return path


def run_replay(path, timeout=300):
    try:
        proc = subprocess.run([PY, path], capture_output=True, text=True, env=worker_env(), timeout=timeout,
                              cwd=VERIF)
    except subprocess.TimeoutExpired:
        return None, 'replay timed out'
    return proc.returncode, (proc.stdout + proc.stderr)[-2000:]


def main(argv=None):
    import argparse
    ap = argparse.ArgumentParser()
    ap.add_argument('prop')
    ap.add_argument('--tier', default=os.environ.get('VERIF_TIER', 'quick'), choices=['quick', 'thorough'])
    ap.add_argument('--jobs', type=int, default=int(os.environ.get('VERIF_JOBS', '16')))
    ap.add_argument('--only', default=None, help='substring filter on case labels (debugging; evidence is marked partial)')
    ap.add_argument('--no-evidence', action='store_true')
    args = ap.parse_args(argv)
    prop = args.prop.upper()
    seed = int(os.environ.get('VERIF_SEED', '0') or 0)
    t_start = time.time()
    reg = register()
    if prop not in reg:
        print('no harness for', prop)
        return 2
    modname = reg[prop]
    os.environ.setdefault('PYTHONHASHSEED', '0')
    mod = importlib.import_module(modname)
    meta = getattr(mod, 'META', {})
    cases = mod.cases(args.tier)
    if args.only:
        cases = [c for c in cases if args.only in c.get('label', c['fn'])]
    log_path = os.path.join(VERIF, 'evidence', '%s.worker.log' % prop)
    os.makedirs(os.path.dirname(log_path), exist_ok=True)
    log = open(log_path, 'w')

    # ---- native self-validation / translation validation of the harness (concrete runs)
    native_runs = 0
    native_failures = []
    if hasattr(mod, 'selftest'):
        try:
            proc = subprocess.run([PY, '-c', 'import sys; sys.path.insert(0, %r); import importlib; m = importlib.import_module(%r);\n'
                                   'import json; print("SELFTEST " + json.dumps(m.selftest(%d)))'
                                   % (VERIF, modname, seed)], capture_output=True, text=True, env=worker_env(),
                                  timeout=900, cwd=VERIF)
            line = [l for l in proc.stdout.splitlines() if l.startswith('SELFTEST ')]
            if proc.returncode != 0 or not line:
                native_failures.append('selftest crashed: ' + (proc.stderr or proc.stdout)[-800:])
            else:
                st = json.loads(line[-1][len('SELFTEST '):])
                native_runs += int(st.get('runs', 0))
                native_failures += list(st.get('failures', []))
        except subprocess.TimeoutExpired:
            native_failures.append('selftest timed out')

    # ---- tasks
    tasks = []
    by_id = {}
    for i, case in enumerate(cases):
        base = dict(module=modname, fn=case['fn'], part=case.get('part', {}), engine=case.get('engine', 'ch'),
                    cond_timeout=case.get('timeout', 120), path_timeout=case.get('path_timeout', 30),
                    label=case.get('label', '%s#%d' % (case['fn'], i)), extra=case.get('extra', {}))
        main_t = dict(base, id='m%d' % i, vacuity=False, attempt=1)
        tasks.append(main_t)
        by_id[main_t['id']] = main_t
        if case.get('twin', True):
            twin_t = dict(base, id='v%d' % i, vacuity=True, attempt=1)
            tasks.append(twin_t)
            by_id[twin_t['id']] = twin_t
    # longest first
    tasks.sort(key=lambda t: (-t['cond_timeout'], t['vacuity']))

    results = {}
    violations = []
    inconclusive = []
    stop_flag = threading.Event()
    replays_run = [0]

    def on_result(task, res):
        results[task['id']] = res
        status = res.get('status')
        label = task['label']
        if os.environ.get('VERIF_VERBOSE'):
            print('  [%s%s] %s paths=%s wall=%ss %s' % ('twin ' if task['vacuity'] else '', label, status, res.get('paths'),
                                                     res.get('wall_s'), (res.get('detail') or '')[:100]), flush=True)
        if task['vacuity']:
            reached = status == 'REFUTED' and ('reached-end' in (res.get('detail') or ''))
            if not reached:
                if task['attempt'] == 1 and status in ('UNKNOWN', 'PRE_UNSAT'):
                    retry = dict(task, attempt=2, cond_timeout=task['cond_timeout'] * 3,
                                 path_timeout=task['path_timeout'] * 3)
                    return [retry]
                inconclusive.append('vacuity twin of %s did not reach the end of the harness: %s %s'
                                    % (label, status, (res.get('detail') or '')[:300]))
            return None
        if status == 'CONFIRMED':
            return None
        if status == 'REFUTED':
            cex = res.get('args')
            model = res.get('model')
            if task['engine'] == 'ch' and cex is None:
                inconclusive.append('%s: refuted but the counterexample could not be parsed: %s'
                                    % (label, (res.get('detail') or '')[:300]))
                return None
            path = write_replay(prop, task['module'], task['fn'], task['part'],
                                (cex or {}).get('args', []), (cex or {}).get('kwargs', {}),
                                '%s | %s' % (label, (res.get('detail') or '')[:500]), engine=task['engine'],
                                model=model)
            code, out = run_replay(path)
            replays_run[0] += 1
            if code == 1:
                violations.append({'label': label, 'replay': path, 'detail': res.get('detail'), 'model': model,
                                   'args': cex, 'replay_output': out[-600:]})
                print('VIOLATION property=%s replay=%s' % (prop, path), flush=True)
                print('  case %s: %s' % (label, (res.get('detail') or '')[:400]), flush=True)
                if not os.environ.get('VERIF_ALL'):
                    stop_flag.set()
            else:
                try:
                    os.remove(path)
                except OSError:
                    pass
                inconclusive.append('%s: solver model did not reproduce natively (engine artefact?): %s | %s'
                                    % (label, (res.get('detail') or '')[:300], (out or '')[-300:]))
            return None
        # UNKNOWN / PRE_UNSAT / ERROR
        if task['attempt'] == 1 and status in ('UNKNOWN', 'PRE_UNSAT') and not stop_flag.is_set():
            retry = dict(task, attempt=2, cond_timeout=task['cond_timeout'] * 3, path_timeout=task['path_timeout'] * 3)
            return [retry]
        inconclusive.append('%s: %s %s %s' % (label, status, (res.get('detail') or '')[:400],
                                              (res.get('traceback') or '')[-600:]))
        return None

    nproc = max(1, min(args.jobs, len(tasks)))
    run_pool(tasks, nproc, log, stop_flag, on_result)
    log.close()

    # ---- known findings
    from engine.common import load_findings
    known_lines = []
    known_reproduced = 0
    for f in load_findings():
        if f['property'] != prop:
            continue
        rp = os.path.join(VERIF, f['replay']) if f.get('replay') else None
        if f['status'] == 'open':
            code, out = run_replay(rp) if rp else (None, 'no replay')
            replays_run[0] += 1
            if code == 1:
                known_reproduced += 1
                line = 'KNOWN-FINDING: property=%s %s' % (prop, f['what'])
                known_lines.append(line)
                print(line, flush=True)
            elif code == 0:
                print('note: recorded finding %s no longer reproduces (repaired?); its carve-out is still applied'
                      % f['id'], flush=True)
            else:
                inconclusive.append('replay of known finding %s failed to run: %s' % (f['id'], (out or '')[-300:]))
        elif f['status'] == 'fixed' and rp:
            # a fixed entry suppresses nothing; its replay documents the old failure and must now pass
            code, out = run_replay(rp)
            replays_run[0] += 1
            if code == 1:
                violations.append({'label': 'regression of fixed finding %s' % f['id'], 'replay': rp,
                                   'detail': f['what']})
                print('VIOLATION property=%s replay=%s' % (prop, rp), flush=True)
                print('  previously fixed finding %s is back: %s' % (f['id'], f['what']), flush=True)
            elif code != 0:
                inconclusive.append('replay of fixed finding %s failed to run: %s' % (f['id'], (out or '')[-300:]))

    if native_failures:
        inconclusive.append('native self-validation of the harness failed (%d): %s' % (len(native_failures),
                                                                                    '; '.join(map(str, native_failures))[:800]))

    # ---- evidence
    main_results = [(by_id[k], v) for k, v in results.items() if k in by_id and not by_id[k]['vacuity']]
    twin_results = [(by_id[k], v) for k, v in results.items() if k in by_id and by_id[k]['vacuity']]
    paths = sum(int(v.get('paths', 0) or 0) for _, v in main_results + twin_results)
    queries = sum(int(v.get('queries', 0) or 0) for _, v in main_results + twin_results)
    solver_s = sum(float(v.get('solver_s', 0) or 0) for _, v in main_results + twin_results)
    cpu_s = sum(float(v.get('cpu_s', 0) or 0) for _, v in main_results + twin_results)
    verdicts = {}
    for t, v in main_results:
        verdicts[v.get('status')] = verdicts.get(v.get('status'), 0) + 1
    samples = []
    for t, v in sorted(main_results, key=lambda tv: -int(tv[1].get('paths', 0) or 0))[:6]:
        samples.append({'case': t['label'], 'fn': t['fn'], 'shape': t['part'], 'verdict': v.get('status'),
                        'paths': v.get('paths'), 'solver_queries': v.get('queries'), 'solver_s': v.get('solver_s'),
                        'detail': (v.get('detail') or '')[:200]})
    wall = time.time() - t_start
    status = 'violation' if violations else ('inconclusive' if inconclusive else 'held')
    evidence = {
        'property_id': prop,
        'tier': args.tier,
        'seed': seed,
        'level': 'model_checking',
        'wall_s': round(wall, 2),
        'violations': len(violations),
        'coverage': {
            'states': max(paths, 0),
            'transitions': max(queries, 0),
            'traces_validated_against_impl': native_runs + replays_run[0],
            'samples': samples or [{'note': 'no case ran'}],
            'exhaustive': False,
            'explanation': 'states = execution paths of the real functions explored symbolically (each path is decided '
                           'for all data values by z3); transitions = SMT queries discharged; '
                           'traces_validated = native concrete runs of the harness (engine self-validation) + '
                           'native replays of solver models / recorded findings',
            'engine': meta.get('engine', ''),
            'functions_encoded': meta.get('functions', []),
            'bounds': (meta.get('bounds') or {}).get(args.tier, ''),
            'outside_claim': meta.get('outside', []),
            'cases': len(main_results),
            'case_verdicts': verdicts,
            'vacuity_twins_reached': sum(1 for t, v in twin_results
                                         if v.get('status') == 'REFUTED' and 'reached-end' in (v.get('detail') or '')),
            'vacuity_twins': len({t['label'] for t, v in twin_results}),
            'solver_seconds': round(solver_s, 2),
            'cpu_seconds': round(cpu_s, 2),
            'native_selfvalidation_runs': native_runs,
            'models_replayed': replays_run[0],
            'known_findings_reproduced': known_lines,
            'violations': violations[:5],
            'inconclusive': inconclusive[:10],
            'status': status,
            'partial': bool(args.only),
        },
        'assumptions': list(meta.get('stubs', [])) + list(meta.get('assumptions', [])) + (
            ['engine: floats are modelled as reals and CrossHair\'s UNKNOWN cap for real-modelled floats is lifted; in E1 harnesses '
             'floats arise only from symbolic integers (float(n), comparisons with inf), exact for |n| < 2**53']
            if not meta.get('engine', '').startswith('E2') else []),
    }
    if not args.no_evidence:
        with open(os.path.join(VERIF, 'evidence', '%s.json' % prop), 'w') as handle:
            json.dump(evidence, handle, indent=1, default=repr)
            handle.write('\n')
    print('%s %s tier=%s cases=%d paths=%d queries=%d solver=%.1fs cpu=%.0fs wall=%.0fs verdicts=%s'
          % (prop, status.upper(), args.tier, len(main_results), paths, queries, solver_s, cpu_s, wall, verdicts),
          flush=True)
    if violations:
        return 1
    if inconclusive:
        for line in inconclusive[:20]:
            print('INCONCLUSIVE:', line[:1200], flush=True)
        return 2
    return 0


if __name__ == '__main__':
    sys.exit(main())
