"""Branch-free oracle helpers for CrossHair harnesses.

An oracle written with Python's max/min/if forks the path tree once per comparison, multiplying the
paths of the code under test.  These helpers build a z3 ``If`` term instead when an operand is a
CrossHair symbolic integer, so the oracle adds no paths and ``got != expected`` becomes one solver
query per path of the real code.  Natively (replays, warm-up) they are plain Python.
"""
import sys


def _sym():
    if 'crosshair' not in sys.modules:
        return None
    from crosshair.tracers import is_tracing
    if not is_tracing():
        return None
    return True


def ite(cond, a, b):
    """if cond then a else b, for ints; cond may be a symbolic bool."""
    if _sym():
        import z3
        from crosshair.tracers import NoTracing
        from crosshair.libimpl.builtinslib import SymbolicInt, SymbolicBool
        with NoTracing():
            if isinstance(cond, SymbolicBool):
                av = a.var if isinstance(a, SymbolicInt) else (z3.IntVal(int(a)) if isinstance(a, int) else None)
                bv = b.var if isinstance(b, SymbolicInt) else (z3.IntVal(int(b)) if isinstance(b, int) else None)
                if av is not None and bv is not None:
                    return SymbolicInt(z3.If(cond.var, av, bv))
    return a if cond else b


def smax(a, b):
    return ite(a >= b, a, b)


def smin(a, b):
    return ite(a <= b, a, b)


def pos(a):
    """max(0, a)"""
    return smax(a, 0)
