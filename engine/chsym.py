"""Branch-free oracle helpers for CrossHair harnesses.

An oracle written with Python's max/min/if forks the path tree once per comparison, multiplying the
paths of the code under test.  These helpers build a z3 ``If`` term instead when an operand is a
CrossHair symbolic integer, so the oracle adds no paths and ``got != expected`` becomes one solver
query per path of the real code.  Natively (replays, warm-up) they are plain Python.
"""
import sys


def _sym():
    if 'crosshair' not in sys.modules:
        return None
    from crosshair.tracers import is_tracing
    if not is_tracing():
        return None
    return True


def ite(cond, a, b):
    """if cond then a else b, for ints; cond may be a symbolic bool."""
    if _sym():
        import z3
        from crosshair.tracers import NoTracing
        from crosshair.libimpl.builtinslib import SymbolicInt, SymbolicBool
        with NoTracing():
            if isinstance(cond, SymbolicBool):
                av = a.var if isinstance(a, SymbolicInt) else (z3.IntVal(int(a)) if isinstance(a, int) else None)
                bv = b.var if isinstance(b, SymbolicInt) else (z3.IntVal(int(b)) if isinstance(b, int) else None)
                if av is not None and bv is not None:
                    return SymbolicInt(z3.If(cond.var, av, bv))
    return a if cond else b


def smax(a, b):
    return ite(a >= b, a, b)


def smin(a, b):
    return ite(a <= b, a, b)


def pos(a):
    """max(0, a)"""
    return smax(a, 0)


def _bvar(x):
    """z3 Bool term of a python bool / CrossHair SymbolicBool (caller holds NoTracing)."""
    import z3
    from crosshair.libimpl.builtinslib import SymbolicBool
    if isinstance(x, SymbolicBool):
        return x.var
    if isinstance(x, bool):
        return z3.BoolVal(x)
    return None


def _bool_op(op, items):
    """Branch-free boolean connective over python bools and symbolic bools."""
    if _sym():
        import z3
        from crosshair.tracers import NoTracing
        from crosshair.libimpl.builtinslib import SymbolicBool
        with NoTracing():
            if any(isinstance(i, SymbolicBool) for i in items):
                terms = [_bvar(i) for i in items]
                if all(t is not None for t in terms):
                    if op == 'and':
                        return SymbolicBool(z3.And(*terms))
                    if op == 'or':
                        return SymbolicBool(z3.Or(*terms))
                    if op == 'not':
                        return SymbolicBool(z3.Not(terms[0]))
                    if op == 'eq':
                        return SymbolicBool(terms[0] == terms[1])
    if op == 'and':
        return all(bool(i) for i in items)
    if op == 'or':
        return any(bool(i) for i in items)
    if op == 'not':
        return not items[0]
    return bool(items[0]) == bool(items[1])


def b_and(*items):
    return _bool_op('and', list(items))


def b_or(*items):
    return _bool_op('or', list(items))


def b_not(item):
    return _bool_op('not', [item])


def b_eq(a, b):
    return _bool_op('eq', [a, b])


def sgn_is(x, s):
    """sign(x) == s for s in -1, 0, +1 without forking (x a python/symbolic int)."""
    if s > 0:
        return x > 0
    if s < 0:
        return x < 0
    return x == 0
